//! Scenario = explicit data. Generator and executor are separate; the executor never
//! draws from a PRNG. Line-oriented text form (see DESIGN.md appendix A).

use crate::spec::{esc, unesc, unesc_str, RuleSpec, ZoneSpec};
use std::collections::BTreeMap;

#[derive(Clone, Debug, PartialEq, Eq)]
pub enum Content {
    /// a zone spec encoded by the harness's writer
    Gen(ZoneSpec),
    /// a file of the vendored IANA tree (relative path under /verif/corpus)
    Corpus(String),
    /// typed single-field corruption of another content
    Typed { base: usize, kind: String, arg: u64 },
    /// literal bytes
    Hex(Vec<u8>),
    /// `len` copies of one byte (large junk files without a large scenario text)
    Fill { len: usize, byte: u8 },
    /// a two-type zone with `n` transitions one second apart alternating between offsets 0 and `d`:
    /// one local time then has about d/2 results (counters wider than a byte / a half-word)
    PingPong { n: usize, d: i32 },
}

#[derive(Clone, Debug, PartialEq, Eq)]
pub enum ErrKind {
    Enoent,
    Eacces,
    Eio,
    Eisdir,
    Eintr,
    Einval,
    Enotdir,
    Eloop,
    Enametoolong,
    Enomem,
    Eagain,
    KInvalidInput,
    KInvalidData,
    KOther,
    KUnexpectedEof,
    Custom,
}

impl ErrKind {
    /// every kind (the later ones are rarer in generated scenarios)
    pub const ALL: &'static [ErrKind] = &[ErrKind::Enoent, ErrKind::Eacces, ErrKind::Eio, ErrKind::Eisdir, ErrKind::Eintr, ErrKind::Einval, ErrKind::Enotdir, ErrKind::Eloop, ErrKind::Enametoolong, ErrKind::Enomem, ErrKind::Eagain, ErrKind::KInvalidInput, ErrKind::KInvalidData, ErrKind::KOther, ErrKind::KUnexpectedEof, ErrKind::Custom];
    pub fn text(&self) -> &'static str {
        match self {
            ErrKind::Enoent => "enoent",
            ErrKind::Eacces => "eacces",
            ErrKind::Eio => "eio",
            ErrKind::Eisdir => "eisdir",
            ErrKind::Eintr => "eintr",
            ErrKind::Einval => "einval",
            ErrKind::Enotdir => "enotdir",
            ErrKind::Eloop => "eloop",
            ErrKind::Enametoolong => "enametoolong",
            ErrKind::Enomem => "enomem",
            ErrKind::Eagain => "eagain",
            ErrKind::KInvalidInput => "kind_invalid_input",
            ErrKind::KInvalidData => "kind_invalid_data",
            ErrKind::KOther => "kind_other",
            ErrKind::KUnexpectedEof => "kind_unexpected_eof",
            ErrKind::Custom => "custom_error",
        }
    }
    pub fn parse(s: &str) -> Option<Self> {
        ErrKind::ALL.iter().find(|k| k.text() == s).cloned()
    }
}

#[derive(Clone, Debug, PartialEq, Eq)]
pub enum Fault {
    Err(ErrKind),
    Short(usize),
    Empty,
    ZeroTail(usize),
    /// prefix of the delivered file up to k, then suffix of content `cid` from k
    Torn(usize, usize),
    Stale,
    /// bit positions (byte*8+bit), reduced modulo the length
    Flip(Vec<u64>),
    GarbageAppend(usize, u8),
    Scribble(u64, u64),
    Typed(String, u64),
}

impl Fault {
    pub fn text(&self) -> String {
        match self {
            Fault::Err(k) => k.text().to_string(),
            Fault::Short(k) => format!("short:{k}"),
            Fault::Empty => "empty".into(),
            Fault::ZeroTail(k) => format!("zerotail:{k}"),
            Fault::Torn(c, k) => format!("torn:{c}:{k}"),
            Fault::Stale => "stale".into(),
            Fault::Flip(v) => format!("flip:{}", v.iter().map(|x| x.to_string()).collect::<Vec<_>>().join(".")),
            Fault::GarbageAppend(n, b) => format!("append:{n}:{b}"),
            Fault::Scribble(a, f) => format!("scribble:{a}:{f}"),
            Fault::Typed(k, a) => format!("typed:{k}:{a}"),
        }
    }

    pub fn kind(&self) -> &'static str {
        match self {
            Fault::Err(k) => k.text(),
            Fault::Short(_) => "short",
            Fault::Empty => "empty",
            Fault::ZeroTail(_) => "zero_tail",
            Fault::Torn(..) => "torn",
            Fault::Stale => "stale",
            Fault::Flip(_) => "flip",
            Fault::GarbageAppend(..) => "garbage_append",
            Fault::Scribble(..) => "scribble",
            Fault::Typed(..) => "typed",
        }
    }

    pub fn parse(s: &str) -> Result<Self, String> {
        if let Some(k) = ErrKind::parse(s) {
            return Ok(Fault::Err(k));
        }
        let p: Vec<&str> = s.split(':').collect();
        let bad = || format!("bad fault {s}");
        let n = |x: &str| x.parse::<u64>().map_err(|_| bad());
        Ok(match (p[0], p.len()) {
            ("short", 2) => Fault::Short(n(p[1])? as usize),
            ("empty", 1) => Fault::Empty,
            ("zerotail", 2) => Fault::ZeroTail(n(p[1])? as usize),
            ("torn", 3) => Fault::Torn(n(p[1])? as usize, n(p[2])? as usize),
            ("stale", 1) => Fault::Stale,
            ("flip", 2) => Fault::Flip(p[1].split('.').filter(|x| !x.is_empty()).map(n).collect::<Result<_, _>>()?),
            ("append", 3) => Fault::GarbageAppend(n(p[1])? as usize, n(p[2])? as u8),
            ("scribble", 3) => Fault::Scribble(n(p[1])?, n(p[2])?),
            ("typed", 3) => Fault::Typed(p[1].to_string(), n(p[2])?),
            _ => return Err(bad()),
        })
    }
}

/// TZ argument of a resolve operation.
#[derive(Clone, Debug, PartialEq, Eq)]
pub enum TzArg {
    Lit(String),
    /// printed from a rule spec by the harness's printer, with padding around it
    Desc { spec: RuleSpec, style: u8, lpad: String, rpad: String },
}

impl TzArg {
    pub fn value(&self) -> String {
        match self {
            TzArg::Lit(s) => s.clone(),
            TzArg::Desc { spec, style, lpad, rpad } => format!("{lpad}{}{rpad}", spec.print(*style)),
        }
    }
}

/// Reference to a zone an operation works on.
#[derive(Clone, Debug, PartialEq, Eq)]
pub enum ZRef {
    /// private slot of the acting client
    P(usize),
    /// shared pool slot (Arc<TimeZone>)
    S(usize),
    /// the constant UTC reference
    U,
    /// a constant 'static TimeZoneRef of the harness
    K(usize),
}

impl ZRef {
    pub fn text(&self) -> String {
        match self {
            ZRef::P(k) => format!("p{k}"),
            ZRef::S(k) => format!("s{k}"),
            ZRef::U => "u".into(),
            ZRef::K(k) => format!("k{k}"),
        }
    }
    pub fn parse(s: &str) -> Result<Self, String> {
        let bad = || format!("bad zone ref {s}");
        if s == "u" {
            return Ok(ZRef::U);
        }
        let (h, t) = s.split_at(1);
        let n: usize = t.parse().map_err(|_| bad())?;
        Ok(match h {
            "p" => ZRef::P(n),
            "s" => ZRef::S(n),
            "k" => ZRef::K(n),
            _ => return Err(bad()),
        })
    }
}

/// Broken-down local time fields.
#[derive(Clone, Copy, Debug, PartialEq, Eq)]
pub struct Fields {
    pub y: i32,
    pub mo: u8,
    pub d: u8,
    pub h: u8,
    pub mi: u8,
    pub s: u8,
    pub ns: u32,
}

impl Fields {
    pub fn text(&self) -> String {
        format!("{}.{}.{}.{}.{}.{}.{}", self.y, self.mo, self.d, self.h, self.mi, self.s, self.ns)
    }
    pub fn parse(s: &str) -> Result<Self, String> {
        let p: Vec<&str> = s.split('.').collect();
        let bad = || format!("bad fields {s}");
        if p.len() != 7 {
            return Err(bad());
        }
        Ok(Fields {
            y: p[0].parse().map_err(|_| bad())?,
            mo: p[1].parse().map_err(|_| bad())?,
            d: p[2].parse().map_err(|_| bad())?,
            h: p[3].parse().map_err(|_| bad())?,
            mi: p[4].parse().map_err(|_| bad())?,
            s: p[5].parse().map_err(|_| bad())?,
            ns: p[6].parse().map_err(|_| bad())?,
        })
    }
}

#[derive(Clone, Debug, PartialEq, Eq)]
pub enum Op {
    // ---- client: resolution / decoding
    Resolve { tz: TzArg, dirs: Vec<usize>, slot: usize },
    ResolveLocal { dirs: Vec<usize>, slot: usize },
    Decode { cid: usize, fault: Option<Fault>, slot: usize },
    // ---- client: queries
    Lookup { z: ZRef, t: i64 },
    FromTs { z: ZRef, t: i64, ns: u32 },
    FromTotal { z: ZRef, n: i128 },
    Project { z: ZRef, t: i64, ns: u32, to: ZRef },
    UtcProject { t: i64, ns: u32, to: ZRef },
    Find { z: ZRef, f: Fields },
    FindN { z: ZRef, f: Fields, n: usize, buf: usize },
    Resize { buf: usize, n: usize },
    /// find_n at a local time derived, at execution time, from the zone's own `pick`-th transition
    /// (`delta` seconds away from it, seen through the offset before or after it)
    FindAt { z: ZRef, pick: u64, delta: i64, n: usize, buf: usize },
    Format { z: ZRef, t: i64, ns: u32 },
    Now { z: ZRef },
    UtcNow,
    Current { z: ZRef },
    Share { slot: usize, pool: usize },
    CloneZ { z: ZRef, slot: usize },
    DropSlot { slot: usize },
    /// constructors / queries called with boundary-biased numbers
    Construct { kind: String, args: Vec<i64> },
    /// the full query set at instants picked from the zone's own boundary list
    Boundary { z: ZRef, picks: Vec<i64> },
    // ---- installer
    Install { path: String, cid: usize },
    Remove { path: String },
    Chmod { path: String, err: Option<ErrKind> },
    BeginUpgrade { path: String, cid: usize, cut: usize },
    EndUpgrade { path: String },
    AtomicReplace { path: String, cid: usize },
    // ---- environment
    /// a real file under the worker's live directory is replaced atomically (write to a temporary name, rename)
    LiveInstall { name: String, cid: usize },
    /// `TimeZone::from_posix_tz(":<live dir>/<name>")` through the default reader, with a scheduling point
    /// before every file-system request the call makes
    LiveRead { name: String },
    SetEnv { key: String, val: String },
    UnsetEnv { key: String },
    ClockAdvance { ns: i128 },
    ClockJump { to: i128 },
}

fn dirs_text(d: &[usize]) -> String {
    if d.is_empty() {
        "-".into()
    } else {
        d.iter().map(|x| x.to_string()).collect::<Vec<_>>().join(",")
    }
}

fn dirs_parse(s: &str) -> Result<Vec<usize>, String> {
    if s == "-" {
        return Ok(vec![]);
    }
    s.split(',').map(|x| x.parse::<usize>().map_err(|_| format!("bad dirs {s}"))).collect()
}

impl Op {
    pub fn name(&self) -> &'static str {
        match self {
            Op::Resolve { .. } => "resolve",
            Op::ResolveLocal { .. } => "resolve_local",
            Op::Decode { .. } => "decode",
            Op::Lookup { .. } => "lookup",
            Op::FromTs { .. } => "fromts",
            Op::FromTotal { .. } => "fromtotal",
            Op::Project { .. } => "project",
            Op::UtcProject { .. } => "utcproject",
            Op::Find { .. } => "find",
            Op::FindN { .. } => "findn",
            Op::Resize { .. } => "resize",
            Op::FindAt { .. } => "findat",
            Op::Format { .. } => "format",
            Op::Now { .. } => "now",
            Op::UtcNow => "utcnow",
            Op::Current { .. } => "current",
            Op::Share { .. } => "share",
            Op::CloneZ { .. } => "clonez",
            Op::DropSlot { .. } => "dropslot",
            Op::Construct { .. } => "construct",
            Op::Boundary { .. } => "boundary",
            Op::Install { .. } => "install",
            Op::Remove { .. } => "remove",
            Op::Chmod { .. } => "chmod",
            Op::BeginUpgrade { .. } => "begin_upgrade",
            Op::EndUpgrade { .. } => "end_upgrade",
            Op::AtomicReplace { .. } => "atomic_replace",
            Op::LiveInstall { .. } => "liveinstall",
            Op::LiveRead { .. } => "liveread",
            Op::SetEnv { .. } => "setenv",
            Op::UnsetEnv { .. } => "unsetenv",
            Op::ClockAdvance { .. } => "clock_advance",
            Op::ClockJump { .. } => "clock_jump",
        }
    }

    pub fn text(&self) -> String {
        let n = self.name();
        match self {
            Op::Resolve { tz, dirs, slot } => match tz {
                TzArg::Lit(s) => format!("{n} tz={} dirs={} slot={slot}", esc(s.as_bytes()), dirs_text(dirs)),
                TzArg::Desc { spec, style, lpad, rpad } => {
                    format!("{n} desc={} style={style} lpad={} rpad={} dirs={} slot={slot}", spec.text(), esc(lpad.as_bytes()), esc(rpad.as_bytes()), dirs_text(dirs))
                }
            },
            Op::ResolveLocal { dirs, slot } => format!("{n} dirs={} slot={slot}", dirs_text(dirs)),
            Op::Decode { cid, fault, slot } => format!("{n} cid={cid} fault={} slot={slot}", fault.as_ref().map(|f| f.text()).unwrap_or_else(|| "none".into())),
            Op::Lookup { z, t } => format!("{n} z={} t={t}", z.text()),
            Op::FromTs { z, t, ns } => format!("{n} z={} t={t} ns={ns}", z.text()),
            Op::FromTotal { z, n: v } => format!("{n} z={} n={v}", z.text()),
            Op::Project { z, t, ns, to } => format!("{n} z={} t={t} ns={ns} to={}", z.text(), to.text()),
            Op::UtcProject { t, ns, to } => format!("{n} t={t} ns={ns} to={}", to.text()),
            Op::Find { z, f } => format!("{n} z={} f={}", z.text(), f.text()),
            Op::FindN { z, f, n: k, buf } => format!("{n} z={} f={} n={k} buf={buf}", z.text(), f.text()),
            Op::Resize { buf, n: k } => format!("{n} buf={buf} n={k}"),
            Op::FindAt { z, pick, delta, n: k, buf } => format!("{n} z={} pick={pick} delta={delta} n={k} buf={buf}", z.text()),
            Op::Format { z, t, ns } => format!("{n} z={} t={t} ns={ns}", z.text()),
            Op::Now { z } => format!("{n} z={}", z.text()),
            Op::UtcNow => n.to_string(),
            Op::Current { z } => format!("{n} z={}", z.text()),
            Op::Share { slot, pool } => format!("{n} slot={slot} pool={pool}"),
            Op::CloneZ { z, slot } => format!("{n} z={} slot={slot}", z.text()),
            Op::DropSlot { slot } => format!("{n} slot={slot}"),
            Op::Construct { kind, args } => format!("{n} kind={kind} args={}", args.iter().map(|a| a.to_string()).collect::<Vec<_>>().join(",")),
            Op::Boundary { z, picks } => format!("{n} z={} picks={}", z.text(), picks.iter().map(|a| a.to_string()).collect::<Vec<_>>().join(",")),
            Op::Install { path, cid } => format!("{n} path={} cid={cid}", esc(path.as_bytes())),
            Op::Remove { path } => format!("{n} path={}", esc(path.as_bytes())),
            Op::Chmod { path, err } => format!("{n} path={} err={}", esc(path.as_bytes()), err.as_ref().map(|e| e.text()).unwrap_or("none")),
            Op::BeginUpgrade { path, cid, cut } => format!("{n} path={} cid={cid} cut={cut}", esc(path.as_bytes())),
            Op::EndUpgrade { path } => format!("{n} path={}", esc(path.as_bytes())),
            Op::AtomicReplace { path, cid } => format!("{n} path={} cid={cid}", esc(path.as_bytes())),
            Op::LiveInstall { name, cid } => format!("{n} name={} cid={cid}", esc(name.as_bytes())),
            Op::LiveRead { name } => format!("{n} name={}", esc(name.as_bytes())),
            Op::SetEnv { key, val } => format!("{n} key={} val={}", esc(key.as_bytes()), esc(val.as_bytes())),
            Op::UnsetEnv { key } => format!("{n} key={}", esc(key.as_bytes())),
            Op::ClockAdvance { ns } => format!("{n} ns={ns}"),
            Op::ClockJump { to } => format!("{n} to={to}"),
        }
    }

    pub fn parse(tokens: &[&str]) -> Result<Self, String> {
        let name = tokens.first().ok_or("empty op")?;
        let mut kv: BTreeMap<&str, &str> = BTreeMap::new();
        for t in &tokens[1..] {
            let (k, v) = t.split_once('=').ok_or_else(|| format!("bad op token {t}"))?;
            kv.insert(k, v);
        }
        let get = |k: &str| kv.get(k).copied().ok_or_else(|| format!("op {name}: missing {k}"));
        let us = |k: &str| -> Result<usize, String> { get(k)?.parse().map_err(|_| format!("op {name}: bad {k}")) };
        let i64v = |k: &str| -> Result<i64, String> { get(k)?.parse().map_err(|_| format!("op {name}: bad {k}")) };
        let u32v = |k: &str| -> Result<u32, String> { get(k)?.parse().map_err(|_| format!("op {name}: bad {k}")) };
        let i128v = |k: &str| -> Result<i128, String> { get(k)?.parse().map_err(|_| format!("op {name}: bad {k}")) };
        let zr = |k: &str| -> Result<ZRef, String> { ZRef::parse(get(k)?) };
        let st = |k: &str| -> Result<String, String> { unesc_str(get(k)?) };
        Ok(match *name {
            "resolve" => {
                let tz = if kv.contains_key("desc") {
                    TzArg::Desc { spec: RuleSpec::parse(get("desc")?)?, style: us("style")? as u8, lpad: st("lpad")?, rpad: st("rpad")? }
                } else {
                    TzArg::Lit(st("tz")?)
                };
                Op::Resolve { tz, dirs: dirs_parse(get("dirs")?)?, slot: us("slot")? }
            }
            "resolve_local" => Op::ResolveLocal { dirs: dirs_parse(get("dirs")?)?, slot: us("slot")? },
            "decode" => {
                let f = get("fault")?;
                Op::Decode { cid: us("cid")?, fault: if f == "none" { None } else { Some(Fault::parse(f)?) }, slot: us("slot")? }
            }
            "lookup" => Op::Lookup { z: zr("z")?, t: i64v("t")? },
            "fromts" => Op::FromTs { z: zr("z")?, t: i64v("t")?, ns: u32v("ns")? },
            "fromtotal" => Op::FromTotal { z: zr("z")?, n: i128v("n")? },
            "project" => Op::Project { z: zr("z")?, t: i64v("t")?, ns: u32v("ns")?, to: zr("to")? },
            "utcproject" => Op::UtcProject { t: i64v("t")?, ns: u32v("ns")?, to: zr("to")? },
            "find" => Op::Find { z: zr("z")?, f: Fields::parse(get("f")?)? },
            "findn" => Op::FindN { z: zr("z")?, f: Fields::parse(get("f")?)?, n: us("n")?, buf: us("buf")? },
            "resize" => Op::Resize { buf: us("buf")?, n: us("n")? },
            "findat" => Op::FindAt { z: zr("z")?, pick: get("pick")?.parse().map_err(|_| "bad pick".to_string())?, delta: i64v("delta")?, n: us("n")?, buf: us("buf")? },
            "format" => Op::Format { z: zr("z")?, t: i64v("t")?, ns: u32v("ns")? },
            "now" => Op::Now { z: zr("z")? },
            "utcnow" => Op::UtcNow,
            "current" => Op::Current { z: zr("z")? },
            "share" => Op::Share { slot: us("slot")?, pool: us("pool")? },
            "clonez" => Op::CloneZ { z: zr("z")?, slot: us("slot")? },
            "dropslot" => Op::DropSlot { slot: us("slot")? },
            "construct" => {
                let a = get("args")?;
                let args = a.split(',').filter(|x| !x.is_empty()).map(|x| x.parse::<i64>().map_err(|_| format!("bad construct arg {x}"))).collect::<Result<_, _>>()?;
                Op::Construct { kind: get("kind")?.to_string(), args }
            }
            "boundary" => {
                let a = get("picks")?;
                let picks = a.split(',').filter(|x| !x.is_empty()).map(|x| x.parse::<i64>().map_err(|_| format!("bad pick {x}"))).collect::<Result<_, _>>()?;
                Op::Boundary { z: zr("z")?, picks }
            }
            "install" => Op::Install { path: st("path")?, cid: us("cid")? },
            "remove" => Op::Remove { path: st("path")? },
            "chmod" => {
                let e = get("err")?;
                Op::Chmod { path: st("path")?, err: if e == "none" { None } else { Some(ErrKind::parse(e).ok_or("bad err kind")?) } }
            }
            "begin_upgrade" => Op::BeginUpgrade { path: st("path")?, cid: us("cid")?, cut: us("cut")? },
            "end_upgrade" => Op::EndUpgrade { path: st("path")? },
            "atomic_replace" => Op::AtomicReplace { path: st("path")?, cid: us("cid")? },
            "liveinstall" => Op::LiveInstall { name: st("name")?, cid: us("cid")? },
            "liveread" => Op::LiveRead { name: st("name")? },
            "setenv" => Op::SetEnv { key: st("key")?, val: st("val")? },
            "unsetenv" => Op::UnsetEnv { key: st("key")? },
            "clock_advance" => Op::ClockAdvance { ns: i128v("ns")? },
            "clock_jump" => Op::ClockJump { to: i128v("to")? },
            _ => return Err(format!("unknown op {name}")),
        })
    }
}

#[derive(Clone, Debug, PartialEq, Eq)]
pub struct FileInit {
    pub path: String,
    pub cid: usize,
    pub prev: Option<usize>,
    pub perm: Option<ErrKind>,
}

#[derive(Clone, Debug, PartialEq, Eq)]
pub struct Actor {
    pub kind: String,
    pub ops: Vec<Op>,
}

#[derive(Clone, Debug, PartialEq, Eq)]
pub struct Prelude {
    pub prop: String,
    pub verif_seed: u64,
    pub first: u64,
    pub count: u64,
    pub recheck_every: u64,
}

#[derive(Clone, Debug, PartialEq, Eq)]
pub struct Scenario {
    /// scenarios (by generator index) to execute in the same process before this one: needed to
    /// reproduce a violation that depends on state the library kept from earlier calls
    pub prelude: Option<Prelude>,
    /// execute up to this many times in one process until a violation shows (for violations that are
    /// themselves nondeterministic, e.g. dependent on a randomised hash seed)
    pub repeat: Option<u32>,
    pub prop: String,
    pub profile: String,
    pub seed: u64,
    pub knobs: String,
    pub dirs: Vec<String>,
    pub contents: Vec<Content>,
    pub files: Vec<FileInit>,
    /// initial reading of the simulated clock, total nanoseconds since the epoch
    pub clock: i128,
    pub actors: Vec<Actor>,
    /// one entry per yield point; value mod (#runnable) picks the thread
    pub sched: Vec<u32>,
    /// fault decisions keyed by read sequence number
    pub faults: BTreeMap<u32, Fault>,
}

impl Scenario {
    pub fn empty(prop: &str, profile: &str, seed: u64) -> Self {
        Scenario { prelude: None, repeat: None, prop: prop.into(), profile: profile.into(), seed, knobs: String::new(), dirs: vec![], contents: vec![], files: vec![], clock: 1_700_000_000_000_000_000, actors: vec![], sched: vec![], faults: BTreeMap::new() }
    }

    pub fn text(&self) -> String {
        let mut s = String::new();
        s.push_str("#tzsim-scenario 1\n");
        s.push_str(&format!("prop {}\n", self.prop));
        s.push_str(&format!("profile {}\n", self.profile));
        s.push_str(&format!("seed {}\n", self.seed));
        if let Some(n) = self.repeat {
            s.push_str(&format!("repeat {n}\n"));
        }
        if let Some(p) = &self.prelude {
            s.push_str(&format!("prelude {} {} {} {} {}\n", p.prop, p.verif_seed, p.first, p.count, p.recheck_every));
        }
        if !self.knobs.is_empty() {
            s.push_str(&format!("knobs {}\n", self.knobs));
        }
        for (i, d) in self.dirs.iter().enumerate() {
            s.push_str(&format!("dir {i} {}\n", esc(d.as_bytes())));
        }
        for (i, c) in self.contents.iter().enumerate() {
            match c {
                Content::Gen(z) => s.push_str(&format!("content {i} gen {}\n", z.text())),
                Content::Corpus(p) => s.push_str(&format!("content {i} corpus {}\n", esc(p.as_bytes()))),
                Content::Typed { base, kind, arg } => s.push_str(&format!("content {i} typed base={base} kind={kind} arg={arg}\n")),
                Content::Fill { len, byte } => s.push_str(&format!("content {i} fill len={len} byte={byte}\n")),
                Content::PingPong { n, d } => s.push_str(&format!("content {i} pingpong n={n} d={d}\n")),
                Content::Hex(b) => s.push_str(&format!("content {i} hex {}\n", if b.is_empty() { "-".to_string() } else { b.iter().map(|x| format!("{x:02x}")).collect::<String>() })),
            }
        }
        for f in &self.files {
            s.push_str(&format!("file {} cid={} prev={} perm={}\n", esc(f.path.as_bytes()), f.cid, f.prev.map(|p| p.to_string()).unwrap_or_else(|| "none".into()), f.perm.as_ref().map(|e| e.text()).unwrap_or("none")));
        }
        s.push_str(&format!("clock {}\n", self.clock));
        for (i, a) in self.actors.iter().enumerate() {
            s.push_str(&format!("actor {i} {}\n", a.kind));
            for op in &a.ops {
                s.push_str(&format!("  op {}\n", op.text()));
            }
        }
        s.push_str("sched");
        for x in &self.sched {
            s.push_str(&format!(" {x}"));
        }
        s.push('\n');
        s.push_str("faults");
        for (k, f) in &self.faults {
            s.push_str(&format!(" r{k}={}", f.text()));
        }
        s.push('\n');
        s
    }

    pub fn parse(text: &str) -> Result<Self, String> {
        let mut sc = Scenario::empty("", "", 0);
        for (ln, line) in text.lines().enumerate() {
            let line = line.trim();
            if line.is_empty() || line.starts_with('#') {
                continue;
            }
            let tok: Vec<&str> = line.split_whitespace().collect();
            let err = |m: String| format!("line {}: {m}", ln + 1);
            match tok[0] {
                "prop" => sc.prop = tok.get(1).unwrap_or(&"").to_string(),
                "profile" => sc.profile = tok.get(1).unwrap_or(&"").to_string(),
                "seed" => sc.seed = tok.get(1).and_then(|x| x.parse().ok()).ok_or_else(|| err("bad seed".into()))?,
                "knobs" => sc.knobs = tok[1..].join(" "),
                "repeat" => sc.repeat = Some(tok.get(1).and_then(|x| x.parse::<u32>().ok()).ok_or_else(|| err("bad repeat".into()))?),
                "prelude" => {
                    let n = |i: usize| tok.get(i).and_then(|x| x.parse::<u64>().ok()).ok_or_else(|| err("bad prelude".into()));
                    sc.prelude = Some(Prelude { prop: tok.get(1).unwrap_or(&"").to_string(), verif_seed: n(2)?, first: n(3)?, count: n(4)?, recheck_every: n(5)? });
                }
                "dir" => sc.dirs.push(unesc_str(tok.get(2).unwrap_or(&"")).map_err(err)?),
                "content" => {
                    let kind = *tok.get(2).ok_or_else(|| err("content kind".into()))?;
                    let c = match kind {
                        "gen" => Content::Gen(ZoneSpec::parse(&tok[3..]).map_err(err)?),
                        "corpus" => Content::Corpus(unesc_str(tok.get(3).unwrap_or(&"")).map_err(err)?),
                        "typed" => {
                            let mut base = 0;
                            let mut k = String::new();
                            let mut arg = 0;
                            for t in &tok[3..] {
                                let (a, b) = t.split_once('=').ok_or_else(|| err("typed token".into()))?;
                                match a {
                                    "base" => base = b.parse().map_err(|_| err("typed base".into()))?,
                                    "kind" => k = b.to_string(),
                                    "arg" => arg = b.parse().map_err(|_| err("typed arg".into()))?,
                                    _ => return Err(err(format!("typed key {a}"))),
                                }
                            }
                            Content::Typed { base, kind: k, arg }
                        }
                        "pingpong" => {
                            let mut n = 0usize;
                            let mut d = 0i32;
                            for t in &tok[3..] {
                                let (a, b) = t.split_once('=').ok_or_else(|| err("pingpong token".into()))?;
                                match a {
                                    "n" => n = b.parse().map_err(|_| err("pingpong n".into()))?,
                                    "d" => d = b.parse().map_err(|_| err("pingpong d".into()))?,
                                    _ => return Err(err(format!("pingpong key {a}"))),
                                }
                            }
                            Content::PingPong { n, d }
                        }
                        "fill" => {
                            let mut len = 0usize;
                            let mut byte = 0u8;
                            for t in &tok[3..] {
                                let (a, b) = t.split_once('=').ok_or_else(|| err("fill token".into()))?;
                                match a {
                                    "len" => len = b.parse().map_err(|_| err("fill len".into()))?,
                                    "byte" => byte = b.parse().map_err(|_| err("fill byte".into()))?,
                                    _ => return Err(err(format!("fill key {a}"))),
                                }
                            }
                            Content::Fill { len, byte }
                        }
                        "hex" => {
                            let h = tok.get(3).copied().unwrap_or("-");
                            let mut b = Vec::new();
                            if h != "-" {
                                let hb = h.as_bytes();
                                if hb.len() % 2 != 0 {
                                    return Err(err("odd hex".into()));
                                }
                                for i in (0..hb.len()).step_by(2) {
                                    b.push(u8::from_str_radix(&h[i..i + 2], 16).map_err(|_| err("bad hex".into()))?);
                                }
                            }
                            Content::Hex(b)
                        }
                        _ => return Err(err(format!("content kind {kind}"))),
                    };
                    sc.contents.push(c);
                }
                "file" => {
                    let path = unesc_str(tok.get(1).unwrap_or(&"")).map_err(err)?;
                    let mut f = FileInit { path, cid: 0, prev: None, perm: None };
                    for t in &tok[2..] {
                        let (a, b) = t.split_once('=').ok_or_else(|| err("file token".into()))?;
                        match a {
                            "cid" => f.cid = b.parse().map_err(|_| err("file cid".into()))?,
                            "prev" => f.prev = if b == "none" { None } else { Some(b.parse().map_err(|_| err("file prev".into()))?) },
                            "perm" => f.perm = if b == "none" { None } else { Some(ErrKind::parse(b).ok_or_else(|| err("file perm".into()))?) },
                            _ => return Err(err(format!("file key {a}"))),
                        }
                    }
                    sc.files.push(f);
                }
                "clock" => sc.clock = tok.get(1).and_then(|x| x.parse().ok()).ok_or_else(|| err("bad clock".into()))?,
                "actor" => sc.actors.push(Actor { kind: tok.get(2).unwrap_or(&"client").to_string(), ops: vec![] }),
                "op" => {
                    let op = Op::parse(&tok[1..]).map_err(err)?;
                    sc.actors.last_mut().ok_or_else(|| err("op before actor".into()))?.ops.push(op);
                }
                "sched" => {
                    for t in &tok[1..] {
                        sc.sched.push(t.parse().map_err(|_| err("bad sched".into()))?);
                    }
                }
                "faults" => {
                    for t in &tok[1..] {
                        let (a, b) = t.split_once('=').ok_or_else(|| err("fault token".into()))?;
                        let k: u32 = a.trim_start_matches('r').parse().map_err(|_| err("fault key".into()))?;
                        sc.faults.insert(k, Fault::parse(b).map_err(err)?);
                    }
                }
                _ => return Err(err(format!("unknown directive {}", tok[0]))),
            }
        }
        Ok(sc)
    }

    pub fn digest(&self) -> u64 {
        crate::prng::fnv(self.text().as_bytes())
    }
}

#[allow(dead_code)]
pub fn _unused(_: &[u8]) -> Result<Vec<u8>, String> {
    unesc("")
}
