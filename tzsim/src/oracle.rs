//! Oracles that are pure functions of (what the library was given, what it returned):
//! decode expectation, reference-decoder agreement, the C20 reference resolver.

use crate::posix;
use crate::scn::{ErrKind, TzArg};
use crate::tzif;
use crate::world::{empty_read, Expect, ReadRec};
use tz::timezone::{TimeZoneSettings, TransitionRule};
use tz::{Error, TimeZone};

/// View of a `Result<TimeZone, tz::Error>` (or TzError) that does not borrow the error payload.
pub enum Res<'a> {
    Ok(&'a TimeZone),
    ErrTz(String),
    ErrIo,
    Panic(String),
}

impl<'a> Res<'a> {
    pub fn of(r: &'a Result<TimeZone, Error>) -> Self {
        match r {
            Ok(z) => Res::Ok(z),
            Err(Error::Io(_)) => Res::ErrIo,
            Err(Error::Tz(e)) => Res::ErrTz(format!("{e:?}")),
            #[allow(unreachable_patterns)]
            Err(_) => Res::ErrTz("?".into()),
        }
    }
    pub fn of_tz(r: &'a Result<TimeZone, tz::TzError>) -> Self {
        match r {
            Ok(z) => Res::Ok(z),
            Err(e) => Res::ErrTz(format!("{e:?}")),
        }
    }
    pub fn brief(&self) -> String {
        match self {
            Res::Ok(z) => {
                let mut s = String::new();
                crate::canon::zone(&mut s, z.as_ref());
                crate::canon::short(&s)
            }
            Res::ErrTz(e) => format!("Err(Tz:{e})"),
            Res::ErrIo => "Err(Io)".into(),
            Res::Panic(m) => format!("PANIC({m})"),
        }
    }
}

/// Compare a decoded zone with what the reference decoder reads from the same bytes.
pub fn ref_matches(z: &TimeZone, bytes: &[u8], footer_unparsed: &mut bool) -> Result<(), String> {
    let raw = tzif::parse_raw(bytes).ok_or_else(|| "library decoded bytes whose block structure the reference decoder cannot walk".to_string())?;
    let rz = tzif::interpret(&raw);
    let zr = z.as_ref();
    if zr.transitions().len() != rz.transitions.len() {
        return Err(format!("transition count {} vs reference {}", zr.transitions().len(), rz.transitions.len()));
    }
    for (i, (t, (rt, ri))) in zr.transitions().iter().zip(rz.transitions.iter()).enumerate() {
        if t.unix_leap_time() != *rt || t.local_time_type_index() != *ri as usize {
            return Err(format!("transition {i}: ({},{}) vs reference ({rt},{ri})", t.unix_leap_time(), t.local_time_type_index()));
        }
    }
    if zr.local_time_types().len() != rz.types.len() {
        return Err(format!("type count {} vs reference {}", zr.local_time_types().len(), rz.types.len()));
    }
    for (i, (l, (off, dst, desig))) in zr.local_time_types().iter().zip(rz.types.iter()).enumerate() {
        let rd = match desig {
            Some(d) => String::from_utf8_lossy(d).into_owned(),
            None => return Err(format!("type {i}: reference finds no NUL-terminated designation, library accepted")),
        };
        if l.ut_offset() != *off || (l.is_dst() as u8) != *dst || l.time_zone_designation() != rd {
            return Err(format!("type {i}: ({},{},{:?}) vs reference ({off},{dst},{rd:?})", l.ut_offset(), l.is_dst() as u8, l.time_zone_designation()));
        }
    }
    if zr.leap_seconds().len() != rz.leaps.len() {
        return Err(format!("leap count {} vs reference {}", zr.leap_seconds().len(), rz.leaps.len()));
    }
    for (i, (l, (t, c))) in zr.leap_seconds().iter().zip(rz.leaps.iter()).enumerate() {
        if l.unix_leap_time() != *t || l.correction() != *c {
            return Err(format!("leap {i}: ({},{}) vs reference ({t},{c})", l.unix_leap_time(), l.correction()));
        }
    }
    match &rz.footer {
        None => {
            if zr.extra_rule().is_some() {
                return Err("v1 file decoded with an extra rule".into());
            }
        }
        Some(f) => {
            if f.len() >= 2 && f[0] == b'\n' && f[f.len() - 1] == b'\n' {
                let inner = &f[1..f.len() - 1];
                if inner.is_empty() {
                    if zr.extra_rule().is_some() {
                        return Err("empty footer decoded with an extra rule".into());
                    }
                } else {
                    match posix::parse_tz(inner, rz.version == b'3').and_then(|s| s.build()) {
                        Some(rule) => {
                            if *zr.extra_rule() != Some(rule) {
                                let mut a = String::new();
                                crate::canon::rule(&mut a, zr.extra_rule());
                                let mut b = String::new();
                                crate::canon::rule(&mut b, &Some(rule));
                                return Err(format!("footer rule {a} vs reference {b}"));
                            }
                        }
                        None => *footer_unparsed = true,
                    }
                }
            } else {
                *footer_unparsed = true;
            }
        }
    }
    Ok(())
}

/// Finding of `check_expect`: (kind, signature, detail). kind is one of
/// "fidelity", "reject", "reference_decoder", "error_class".
pub type Finding = (&'static str, String, String);

pub fn check_expect(expect: &Expect, bytes: &[u8], res: &Res, footer_unparsed: &mut bool) -> Vec<Finding> {
    let mut out = Vec::new();
    match (expect, res) {
        (_, Res::Panic(m)) => out.push(("panic", "panic".into(), format!("decoding panicked: {m}"))),
        (_, Res::ErrIo) => out.push(("error_class", "io-error-for-read-file".into(), "a file that was read produced Error::Io instead of a decoding error".into())),
        (Expect::Zone(z), Res::Ok(r)) => {
            if **z != **r {
                let mut a = String::new();
                crate::canon::zone(&mut a, z.as_ref().as_ref());
                let mut b = String::new();
                crate::canon::zone(&mut b, r.as_ref());
                out.push(("fidelity", "decoded-zone-differs".into(), format!("expected {} got {}", crate::canon::short(&a), crate::canon::short(&b))));
            }
        }
        (Expect::Zone(_), Res::ErrTz(e)) => out.push(("fidelity", "well-formed-refused".into(), format!("well-formed generated file refused: {e}"))),
        (Expect::Reject(why), Res::Ok(_)) => out.push(("reject", why.clone(), format!("malformed file ({why}) accepted: {}", res.brief()))),
        (Expect::Reject(_), Res::ErrTz(_)) => {}
        (Expect::CorpusOk, Res::ErrTz(e)) => out.push(("reference_decoder", "iana-file-refused".into(), format!("well-formed IANA file refused: {e}"))),
        (Expect::WellFormed, Res::ErrTz(e)) => out.push(("fidelity", "well-formed-refused".into(), format!("generated file that is well-formed by the independent model (footer rule consistent with the last transition) refused: {e}"))),
        (Expect::CorpusOk, Res::Ok(r)) | (Expect::Unknown, Res::Ok(r)) | (Expect::WellFormed, Res::Ok(r)) => {
            if let Err(m) = ref_matches(r, bytes, footer_unparsed) {
                out.push(("reference_decoder", "disagrees-with-reference".into(), m));
            }
        }
        (Expect::Unknown, Res::ErrTz(_)) => {}
    }
    out
}

// ------------------------------------------------------------------ C20 reference resolver

fn is_ascii_ws(b: u8) -> bool {
    matches!(b, b' ' | b'\t' | b'\n' | 0x0C | b'\r')
}

pub fn trim_ascii_ws(s: &str) -> &str {
    let b = s.as_bytes();
    let mut i = 0;
    let mut j = b.len();
    while i < j && is_ascii_ws(b[i]) {
        i += 1;
    }
    while j > i && is_ascii_ws(b[j - 1]) {
        j -= 1;
    }
    &s[i..j]
}

pub struct ResolveCheck {
    pub findings: Vec<(&'static str, String, String)>,
    /// probes hit
    pub probes: Vec<&'static str>,
    pub footer_unparsed: bool,
}

/// The reference resolver, consuming the actual outcome of each read.
/// `local` = the operation was parse_local() (equivalent to the value "localtime").
pub fn check_resolve(tzarg: &TzArg, local: bool, dirs: &[&str], reads: &[ReadRec], result: &Res) -> ResolveCheck {
    let mut c = ResolveCheck { findings: vec![], probes: vec![], footer_unparsed: false };
    let tz = if local { "localtime".to_string() } else { tzarg.value() };
    let open = |c: &mut ResolveCheck, sig: &str, d: String| c.findings.push(("open_history", sig.to_string(), d));

    if let Res::Panic(m) = result {
        c.findings.push(("panic", "panic".into(), format!("resolution panicked: {m}")));
        return c;
    }

    // 1. empty value: refused, nothing opened
    if tz.is_empty() {
        c.probes.push("empty_value");
        if !reads.is_empty() {
            open(&mut c, "opened-for-empty", format!("empty TZ value opened {:?}", reads[0].path));
        }
        if !matches!(result, Res::ErrTz(_)) {
            c.findings.push(("result", "empty-not-refused".into(), format!("empty TZ value gave {}", result.brief())));
        }
        return c;
    }

    // 2. candidate list
    let (name, forced, literal_local): (&str, bool, bool) = if tz == "localtime" {
        ("/etc/localtime", true, true)
    } else if let Some(r) = tz.strip_prefix(':') {
        (r, true, false)
    } else {
        (&tz[..], false, false)
    };
    if literal_local {
        c.probes.push("literal_localtime");
    } else if forced {
        c.probes.push("colon_value");
    }
    if name.is_empty() {
        // ":" alone: the statement does not say which paths, only that there is no fallback
        if matches!(result, Res::Ok(_)) {
            c.findings.push(("result", "colon-alone-accepted".into(), format!("':' gave {}", result.brief())));
        }
        return c;
    }
    let candidates: Vec<String> = if name.starts_with('/') { vec![name.to_string()] } else { dirs.iter().map(|d| format!("{d}/{name}")).collect() };
    if name.starts_with('/') && !literal_local {
        c.probes.push("absolute_path");
    }

    // 3. walk the recorded reads against the candidates
    let mut winner: Option<&ReadRec> = None;
    let mut i = 0;
    for cand in &candidates {
        match reads.get(i) {
            None => {
                open(&mut c, "missing-open", format!("TZ {tz:?}: expected open #{i} of {cand:?}, but only {} opens were made: {:?}", reads.len(), reads.iter().map(|r| &r.path).collect::<Vec<_>>()));
                return c;
            }
            Some(r) => {
                if r.path != *cand {
                    open(&mut c, "wrong-path", format!("TZ {tz:?} dirs {dirs:?}: open #{i} was {:?}, expected {cand:?}", r.path));
                    return c;
                }
                i += 1;
                if r.res.is_ok() {
                    winner = Some(r);
                    break;
                }
            }
        }
    }
    if reads.len() > i {
        open(&mut c, "extra-open", format!("TZ {tz:?} dirs {dirs:?}: unexpected open #{i} of {:?} (after {})", reads[i].path, if winner.is_some() { "a successful read" } else { "all candidates failed" }));
        return c;
    }
    if winner.is_some() && i > 1 {
        c.probes.push("later_directory_won");
    }
    if winner.is_none() && candidates.len() > 1 {
        c.probes.push("all_directories_failed");
    }

    // 4. result
    match winner {
        Some(r) => {
            let (bytes, expect) = r.res.as_ref().ok().unwrap();
            if !forced && is_description_like(trim_ascii_ws(&tz)) {
                c.probes.push("file_won_over_parsable_description");
            }
            if matches!(expect, Expect::Reject(_)) {
                c.probes.push("malformed_file_read");
            }
            for (k, s, d) in check_expect(expect, bytes, result, &mut c.footer_unparsed) {
                c.findings.push(("result_file", format!("{k}:{s}"), format!("TZ {tz:?} read {:?}: {d}", r.path)));
            }
        }
        None if forced => {
            c.probes.push("forced_lookup_unreadable");
            if !matches!(result, Res::ErrIo) {
                c.findings.push(("result", "unreadable-not-io".into(), format!("TZ {tz:?}: no file readable, expected Err(Io), got {}", result.brief())));
            }
        }
        None => {
            // description branch
            c.probes.push("description_branch");
            let t = trim_ascii_ws(&tz);
            if t.len() != tz.len() {
                c.probes.push("description_trimmed");
            }
            if matches!(result, Res::ErrIo) {
                c.findings.push(("result_description", "io-error-in-description-branch".into(), format!("TZ {tz:?}: no file readable and not forced, expected description decoding, got Err(Io)")));
                return c;
            }
            match tzarg {
                TzArg::Desc { spec, lpad, rpad, style } if !local => {
                    let pads_ascii = lpad.bytes().chain(rpad.bytes()).all(is_ascii_ws);
                    let expected: Option<TimeZone> = if !pads_ascii || spec.needs_extensions_styled(*style) || !spec.printable() {
                        if !pads_ascii {
                            c.probes.push("non_ascii_whitespace_not_trimmed");
                        }
                        if spec.needs_extensions_styled(*style) {
                            c.probes.push(if spec.needs_extensions() { "extension_only_description" } else { "extension_only_syntax_signed_rule_time" });
                        }
                        None
                    } else {
                        spec.build().and_then(|rule| {
                            let types = match &rule {
                                TransitionRule::Fixed(l) => vec![*l],
                                TransitionRule::Alternate(a) => vec![*a.std(), *a.dst()],
                            };
                            TimeZone::new(vec![], types, vec![], Some(rule)).ok()
                        })
                    };
                    match (&expected, result) {
                        (Some(e), Res::Ok(r)) => {
                            if e != *r {
                                let mut a = String::new();
                                crate::canon::zone(&mut a, e.as_ref());
                                c.findings.push(("result_description", "description-zone-differs".into(), format!("TZ {tz:?}: expected {a} got {}", result.brief())));
                            }
                        }
                        (Some(_), _) => c.findings.push(("result_description", "valid-description-refused".into(), format!("TZ {tz:?}: valid description gave {}", result.brief()))),
                        (None, Res::Ok(_)) => c.findings.push(("result_description", "invalid-description-accepted".into(), format!("TZ {tz:?}: must be refused (extensions / untrimmed / invalid), got {}", result.brief()))),
                        (None, _) => {}
                    }
                }
                _ => {
                    // metamorphic: same answer as the trimmed value in an empty world
                    if t.is_empty() || t == "localtime" || t.starts_with(':') {
                        if matches!(result, Res::Ok(_)) {
                            c.findings.push(("metamorphic_trim", "degenerate-accepted".into(), format!("TZ {tz:?}: description {t:?} accepted: {}", result.brief())));
                        }
                    } else if t.len() != tz.len() {
                        let alone = TimeZoneSettings::new(&[], empty_read).parse_posix_tz(t);
                        let ar = Res::of(&alone);
                        let same = match (&ar, result) {
                            (Res::Ok(a), Res::Ok(b)) => a == b,
                            (Res::ErrTz(_), Res::ErrTz(_)) => true,
                            _ => false,
                        };
                        if !same {
                            c.findings.push(("metamorphic_trim", "trim-changes-answer".into(), format!("TZ {tz:?} gave {} but trimmed {t:?} alone gives {}", result.brief(), ar.brief())));
                        }
                    }
                }
            }
        }
    }
    c
}

/// Cheap syntactic test used only for a coverage probe.
fn is_description_like(s: &str) -> bool {
    let b = s.as_bytes();
    let n = b.iter().take_while(|c| c.is_ascii_alphabetic()).count();
    (n >= 3 && b.get(n).map_or(false, |c| c.is_ascii_digit() || *c == b'-' || *c == b'+')) || b.first() == Some(&b'<')
}

#[allow(dead_code)]
fn _k(_: ErrKind) {}
