//! Independent TZif (RFC 8536) model of the harness: a raw structural view of a
//! file (`RawFile`), a serializer, a straight-line reference decoder with no
//! validation, and the catalogue of typed single-field corruptions a "buggy
//! installer" writes. Nothing here calls into tz-rs.

#[derive(Clone, Debug, PartialEq, Eq, Default)]
pub struct RawBlock {
    // header counts as written (may be made inconsistent with the body on purpose)
    pub isutcnt: u32,
    pub isstdcnt: u32,
    pub leapcnt: u32,
    pub timecnt: u32,
    pub typecnt: u32,
    pub charcnt: u32,
    // body
    pub times: Vec<u8>,
    pub idx: Vec<u8>,
    pub ttinfo: Vec<u8>,
    pub chars: Vec<u8>,
    pub leaps: Vec<u8>,
    pub isstd: Vec<u8>,
    pub isut: Vec<u8>,
}

#[derive(Clone, Debug, PartialEq, Eq)]
pub struct RawFile {
    pub magic1: [u8; 4],
    pub version1: u8,
    pub reserved1: [u8; 15],
    pub b1: RawBlock,
    /// second header + 64-bit block + footer, for version >= 2
    pub second: Option<RawSecond>,
    /// anything after the v1 body of a v1 file
    pub trailing: Vec<u8>,
}

#[derive(Clone, Debug, PartialEq, Eq)]
pub struct RawSecond {
    pub magic2: [u8; 4],
    pub version2: u8,
    pub reserved2: [u8; 15],
    pub b2: RawBlock,
    pub footer: Vec<u8>,
}

fn be32(b: &[u8]) -> u32 {
    u32::from_be_bytes([b[0], b[1], b[2], b[3]])
}

struct Rd<'a> {
    b: &'a [u8],
    p: usize,
}

impl<'a> Rd<'a> {
    fn take(&mut self, n: usize) -> Option<&'a [u8]> {
        let end = self.p.checked_add(n)?;
        if end > self.b.len() {
            return None;
        }
        let r = &self.b[self.p..end];
        self.p = end;
        Some(r)
    }
}

fn read_block(rd: &mut Rd, time_size: usize) -> Option<([u8; 4], u8, [u8; 15], RawBlock)> {
    let magic: [u8; 4] = rd.take(4)?.try_into().ok()?;
    let version = rd.take(1)?[0];
    let reserved: [u8; 15] = rd.take(15)?.try_into().ok()?;
    let isutcnt = be32(rd.take(4)?);
    let isstdcnt = be32(rd.take(4)?);
    let leapcnt = be32(rd.take(4)?);
    let timecnt = be32(rd.take(4)?);
    let typecnt = be32(rd.take(4)?);
    let charcnt = be32(rd.take(4)?);
    let times = rd.take((timecnt as usize).checked_mul(time_size)?)?.to_vec();
    let idx = rd.take(timecnt as usize)?.to_vec();
    let ttinfo = rd.take((typecnt as usize).checked_mul(6)?)?.to_vec();
    let chars = rd.take(charcnt as usize)?.to_vec();
    let leaps = rd.take((leapcnt as usize).checked_mul(time_size + 4)?)?.to_vec();
    let isstd = rd.take(isstdcnt as usize)?.to_vec();
    let isut = rd.take(isutcnt as usize)?.to_vec();
    Some((magic, version, reserved, RawBlock { isutcnt, isstdcnt, leapcnt, timecnt, typecnt, charcnt, times, idx, ttinfo, chars, leaps, isstd, isut }))
}

/// Structural parse of a well-formed file. `None` if the structure cannot be walked.
pub fn parse_raw(bytes: &[u8]) -> Option<RawFile> {
    let mut rd = Rd { b: bytes, p: 0 };
    let (magic1, version1, reserved1, b1) = read_block(&mut rd, 4)?;
    if version1 == 0 {
        let trailing = bytes[rd.p..].to_vec();
        return Some(RawFile { magic1, version1, reserved1, b1, second: None, trailing });
    }
    let (magic2, version2, reserved2, b2) = read_block(&mut rd, 8)?;
    let footer = bytes[rd.p..].to_vec();
    Some(RawFile { magic1, version1, reserved1, b1, second: Some(RawSecond { magic2, version2, reserved2, b2, footer }), trailing: Vec::new() })
}

fn write_block(out: &mut Vec<u8>, magic: &[u8; 4], version: u8, reserved: &[u8; 15], b: &RawBlock) {
    out.extend_from_slice(magic);
    out.push(version);
    out.extend_from_slice(reserved);
    for c in [b.isutcnt, b.isstdcnt, b.leapcnt, b.timecnt, b.typecnt, b.charcnt] {
        out.extend_from_slice(&c.to_be_bytes());
    }
    out.extend_from_slice(&b.times);
    out.extend_from_slice(&b.idx);
    out.extend_from_slice(&b.ttinfo);
    out.extend_from_slice(&b.chars);
    out.extend_from_slice(&b.leaps);
    out.extend_from_slice(&b.isstd);
    out.extend_from_slice(&b.isut);
}

pub fn serialize(f: &RawFile) -> Vec<u8> {
    let mut out = Vec::new();
    write_block(&mut out, &f.magic1, f.version1, &f.reserved1, &f.b1);
    if let Some(s) = &f.second {
        write_block(&mut out, &s.magic2, s.version2, &s.reserved2, &s.b2);
        out.extend_from_slice(&s.footer);
    }
    out.extend_from_slice(&f.trailing);
    out
}

/// Byte offset where the second header starts (v2+), i.e. the length of header1 + v1 body.
pub fn second_header_offset(f: &RawFile) -> usize {
    let mut out = Vec::new();
    write_block(&mut out, &f.magic1, f.version1, &f.reserved1, &f.b1);
    out.len()
}

/// What a file encodes, as read by the reference decoder (no validation at all).
#[derive(Clone, Debug, PartialEq, Eq)]
pub struct RefZone {
    pub version: u8,
    pub transitions: Vec<(i64, u8)>,
    /// (offset, dst byte, designation bytes up to the NUL; None if there is no NUL after the index)
    pub types: Vec<(i32, u8, Option<Vec<u8>>)>,
    pub leaps: Vec<(i64, i32)>,
    /// raw footer (v2+), including the framing newlines
    pub footer: Option<Vec<u8>>,
}

/// Reference decoder: direct transcription of RFC 8536 section 3.
pub fn interpret(f: &RawFile) -> RefZone {
    let (b, ts, footer) = match &f.second {
        None => (&f.b1, 4usize, None),
        Some(s) => (&s.b2, 8usize, Some(s.footer.clone())),
    };
    let mut transitions = Vec::new();
    for (i, chunk) in b.times.chunks_exact(ts).enumerate() {
        let t = if ts == 4 { i32::from_be_bytes(chunk.try_into().unwrap()) as i64 } else { i64::from_be_bytes(chunk.try_into().unwrap()) };
        transitions.push((t, *b.idx.get(i).unwrap_or(&0)));
    }
    let mut types = Vec::new();
    for c in b.ttinfo.chunks_exact(6) {
        let off = i32::from_be_bytes([c[0], c[1], c[2], c[3]]);
        let i = c[5] as usize;
        let desig = if i < b.chars.len() { b.chars[i..].iter().position(|&x| x == 0).map(|p| b.chars[i..i + p].to_vec()) } else { None };
        types.push((off, c[4], desig));
    }
    let mut leaps = Vec::new();
    for c in b.leaps.chunks_exact(ts + 4) {
        let t = if ts == 4 { i32::from_be_bytes(c[..4].try_into().unwrap()) as i64 } else { i64::from_be_bytes(c[..8].try_into().unwrap()) };
        let corr = i32::from_be_bytes(c[ts..ts + 4].try_into().unwrap());
        leaps.push((t, corr));
    }
    RefZone { version: f.version1, transitions, types, leaps, footer }
}

/// Typed single-field corruptions: each produces a file that violates RFC 8536 in
/// exactly one stated way, so the expected outcome of decoding is "rejected".
pub const TYPED_KINDS: &[&str] = &[
    "bad_magic1",
    "bad_magic2",
    "bad_version",
    "isutcnt_bad",
    "isstdcnt_bad",
    "typecnt_zero",
    "charcnt_zero",
    "count_huge",
    "dst_flag",
    "desig_index",
    "no_nul",
    "pair_0_1",
    "indicator_value",
    "footer_no_first_nl",
    "footer_no_last_nl",
    "footer_colon",
    "footer_nul",
    "footer_non_utf8",
    "footer_only_nl",
    "v1_trailing",
    "trans_idx_oob",
    "trans_unsorted",
    "footer_extra_line",
    "footer_junk_char",
    "h1_typecnt_zero",
    "h1_charcnt_zero",
    "h1_isstdcnt_bad",
    "h1_isutcnt_bad",
    "footer_big_number",
    "footer_unicode_space",
    "footer_minsec_60",
    "desig_bad_char",
    "desig_short",
    "desig_two_bad",
];

fn eff<'a>(f: &'a mut RawFile) -> &'a mut RawBlock {
    match &mut f.second {
        Some(s) => &mut s.b2,
        None => &mut f.b1,
    }
}

fn eff_time_size(f: &RawFile) -> usize {
    if f.second.is_some() {
        8
    } else {
        4
    }
}

/// Apply typed corruption `kind` with free parameter `arg` to a well-formed file.
/// Returns None when the corruption is not applicable to this file (e.g. footer
/// faults on a v1 file); the result, when Some, MUST be rejected by a conforming reader.
pub fn typed(orig: &RawFile, kind: &str, arg: u64) -> Option<Vec<u8>> {
    let mut f = orig.clone();
    let a = arg as usize;
    match kind {
        "bad_magic1" => {
            let i = a % 4;
            f.magic1[i] ^= 1 << ((a / 4) % 8);
        }
        "bad_magic2" => {
            let s = f.second.as_mut()?;
            let i = a % 4;
            s.magic2[i] ^= 1 << ((a / 4) % 8);
        }
        "bad_version" => {
            // version 4 (RFC 9636) is deliberately not in this list
            let vs = [0x01u8, b'1', 0xFF, b' ', b'0', 0x02, 0x03];
            f.version1 = vs[a % vs.len()];
        }
        "isutcnt_bad" | "isstdcnt_bad" => {
            let b = eff(&mut f);
            let tc = b.typecnt;
            // a count that is neither 0 nor typecnt, with the body kept structurally consistent with it
            let newc = if a % 2 == 0 || tc < 2 { tc + 1 + (a as u32 / 2) % 3 } else { 1 + (a as u32 / 2) % (tc - 1) };
            if newc == tc || newc == 0 {
                return None;
            }
            if kind == "isutcnt_bad" {
                b.isutcnt = newc;
                b.isut = vec![0; newc as usize];
            } else {
                b.isstdcnt = newc;
                b.isstd = vec![0; newc as usize];
            }
        }
        "typecnt_zero" => {
            let b = eff(&mut f);
            b.typecnt = 0;
            b.ttinfo.clear();
            b.timecnt = 0;
            b.times.clear();
            b.idx.clear();
            b.isstdcnt = 0;
            b.isstd.clear();
            b.isutcnt = 0;
            b.isut.clear();
        }
        "charcnt_zero" => {
            let b = eff(&mut f);
            b.charcnt = 0;
            b.chars.clear();
        }
        "count_huge" => {
            let b = eff(&mut f);
            let v = [0x8000_0000u32, 0xFFFF_FFFF, 0x7FFF_FFFF, 0x1000_0000][a % 4];
            match (a / 4) % 6 {
                0 => b.isutcnt = v,
                1 => b.isstdcnt = v,
                2 => b.leapcnt = v,
                3 => b.timecnt = v,
                4 => b.typecnt = v,
                _ => b.charcnt = v,
            }
        }
        "dst_flag" => {
            let b = eff(&mut f);
            let n = b.ttinfo.len() / 6;
            if n == 0 {
                return None;
            }
            let k = a % n;
            let v = 2 + ((a / n) % 254) as u8;
            b.ttinfo[k * 6 + 4] = v;
        }
        "desig_index" => {
            let b = eff(&mut f);
            let n = b.ttinfo.len() / 6;
            if n == 0 || b.chars.len() >= 256 {
                return None;
            }
            let k = a % n;
            let room = 256 - b.chars.len();
            let v = b.chars.len() + (a / n) % room;
            b.ttinfo[k * 6 + 5] = v as u8;
        }
        "desig_bad_char" | "desig_short" | "desig_two_bad" => {
            let b = eff(&mut f);
            let n = b.ttinfo.len() / 6;
            if n == 0 {
                return None;
            }
            // (start, length) of the designation of type k, if it has a terminating NUL
            let span = |b: &RawBlock, k: usize| -> Option<(usize, usize)> {
                let i = b.ttinfo[k * 6 + 5] as usize;
                if i >= b.chars.len() {
                    return None;
                }
                b.chars[i..].iter().position(|&x| x == 0).map(|p| (i, p))
            };
            let k = a % n;
            let (i, len) = span(b, k)?;
            if len < 3 {
                return None;
            }
            let bad = [b'!', b' ', 0x80, b'_', b'.', b'/'][(a / n) % 6];
            match kind {
                "desig_bad_char" => b.chars[i + (a / n / 6) % len] = bad,
                "desig_short" => b.chars[i + 1 + (a / n) % 2] = 0,
                _ => {
                    // two designations, disjoint in the table, bad for different reasons (a reader that
                    // reports "the" error of such a file must not let the choice depend on anything but the bytes)
                    let k2 = (0..n).map(|d| (k + 1 + d) % n).find(|&k2| span(b, k2).map_or(false, |(j, l2)| l2 >= 3 && (j + l2 < i || i + len < j)))?;
                    let (j, _) = span(b, k2)?;
                    b.chars[i] = bad;
                    b.chars[j + 2] = 0;
                }
            }
        }
        "no_nul" => {
            let b = eff(&mut f);
            let n = b.ttinfo.len() / 6;
            if n == 0 {
                return None;
            }
            let k = a % n;
            let i = b.ttinfo[k * 6 + 5] as usize;
            if i >= b.chars.len() {
                return None;
            }
            for c in b.chars[i..].iter_mut() {
                if *c == 0 {
                    *c = b'A';
                }
            }
        }
        "pair_0_1" | "indicator_value" => {
            let b = eff(&mut f);
            let n = b.typecnt as usize;
            if n == 0 {
                return None;
            }
            if b.isstd.len() != n {
                b.isstd = vec![0; n];
                b.isstdcnt = n as u32;
            }
            if b.isut.len() != n {
                b.isut = vec![0; n];
                b.isutcnt = n as u32;
            }
            let k = a % n;
            if kind == "pair_0_1" {
                b.isstd[k] = 0;
                b.isut[k] = 1;
            } else {
                let v = 2 + ((a / n) % 254) as u8;
                if (a / n / 254) % 2 == 0 {
                    b.isstd[k] = v;
                } else {
                    b.isut[k] = v;
                }
            }
        }
        "footer_no_first_nl" => {
            let s = f.second.as_mut()?;
            if s.footer.first() != Some(&b'\n') || s.footer.len() < 2 {
                return None;
            }
            // replace the first newline by a character that cannot be skipped as whitespace
            if a % 2 == 0 {
                s.footer.remove(0);
                if s.footer.first() == Some(&b'\n') {
                    return None;
                }
            } else {
                s.footer[0] = b'X';
            }
        }
        "footer_no_last_nl" => {
            let s = f.second.as_mut()?;
            if s.footer.last() != Some(&b'\n') || s.footer.len() < 2 {
                return None;
            }
            if a % 2 == 0 {
                s.footer.pop();
                if s.footer.last() == Some(&b'\n') {
                    return None;
                }
            } else {
                let l = s.footer.len();
                s.footer[l - 1] = b'X';
            }
        }
        "footer_colon" => {
            let s = f.second.as_mut()?;
            if s.footer.first() != Some(&b'\n') {
                return None;
            }
            s.footer.insert(1, b':');
        }
        "footer_nul" => {
            let s = f.second.as_mut()?;
            if s.footer.len() < 2 {
                return None;
            }
            let pos = 1 + a % (s.footer.len() - 1);
            s.footer.insert(pos, 0);
        }
        "footer_non_utf8" => {
            let s = f.second.as_mut()?;
            if s.footer.len() < 2 {
                return None;
            }
            let pos = 1 + a % (s.footer.len() - 1);
            let bad = [0xFFu8, 0xC0, 0x80, 0xFE][(a / 7) % 4];
            s.footer.insert(pos, bad);
        }
        "footer_only_nl" => {
            // the footer cut right after its first newline (a truncated write)
            let s = f.second.as_mut()?;
            if s.footer.len() < 2 {
                return None;
            }
            s.footer.truncate(1);
        }
        "footer_extra_line" => {
            // a second line inside the footer: NL TZ-string NL more NL
            let s = f.second.as_mut()?;
            if s.footer.len() < 3 || s.footer.last() != Some(&b'\n') {
                return None;
            }
            let extra: &[u8] = [&b"GARBAGE"[..], b"UTC0", b"CET-1", b"x"][a % 4];
            let l = s.footer.len();
            if (a / 4) % 2 == 0 {
                s.footer.extend_from_slice(extra);
                s.footer.push(b'\n');
            } else {
                let mut ins = extra.to_vec();
                ins.push(b'\n');
                let tail = s.footer.split_off(1);
                s.footer.extend_from_slice(&ins);
                s.footer.extend_from_slice(&tail);
                let _ = l;
            }
        }
        "footer_big_number" => {
            // one numeric field of the footer's TZ string replaced by a number far outside every
            // field's range (no field of the grammar admits a value above 365)
            let s = f.second.as_mut()?;
            let mut runs: Vec<(usize, usize)> = Vec::new();
            let mut quoted = false;
            let mut i = 0;
            while i < s.footer.len() {
                let c = s.footer[i];
                if c == b'<' {
                    quoted = true;
                } else if c == b'>' {
                    quoted = false;
                } else if c.is_ascii_digit() && !quoted {
                    let st = i;
                    while i < s.footer.len() && s.footer[i].is_ascii_digit() {
                        i += 1;
                    }
                    runs.push((st, i));
                    continue;
                }
                i += 1;
            }
            if runs.is_empty() {
                return None;
            }
            let (st, en) = runs[a % runs.len()];
            let big: &[u8] = [&b"596524"[..], b"2147483647", b"4294967296", b"65536", b"596523", b"9223372036854775807", b"32768", b"1000"][(a / runs.len()) % 8];
            s.footer.splice(st..en, big.iter().copied());
        }
        "footer_minsec_60" => {
            // a minutes or seconds field of 60 (or 61, 99) in an offset or a rule time: outside the grammar (0-59)
            let s = f.second.as_mut()?;
            if s.footer.len() < 3 || s.footer.first() != Some(&b'\n') || s.footer.last() != Some(&b'\n') {
                return None;
            }
            let body: Vec<u8> = s.footer[1..s.footer.len() - 1].to_vec();
            let bad: &[u8] = [&b"60"[..], b"61", b"99", b"60"][(a / 4) % 4];
            let out: Vec<u8> = if a % 2 == 0 && body.contains(&b',') {
                // the time of the last rule part
                let cut = body.iter().rposition(|c| *c == b',')?;
                let (head, last) = body.split_at(cut);
                let day_end = last.iter().position(|c| *c == b'/').unwrap_or(last.len());
                let mut v = head.to_vec();
                v.extend_from_slice(&last[..day_end]);
                if (a / 2) % 2 == 0 {
                    v.extend_from_slice(b"/2:00:");
                } else {
                    v.extend_from_slice(b"/2:");
                }
                v.extend_from_slice(bad);
                v
            } else {
                // the standard offset: first number run after the (possibly quoted) name
                let mut i = 0;
                if body.first() == Some(&b'<') {
                    i = body.iter().position(|c| *c == b'>')? + 1;
                } else {
                    while i < body.len() && body[i].is_ascii_alphabetic() {
                        i += 1;
                    }
                }
                if i < body.len() && (body[i] == b'+' || body[i] == b'-') {
                    i += 1;
                }
                let st = i;
                while i < body.len() && body[i].is_ascii_digit() {
                    i += 1;
                }
                if i == st {
                    return None;
                }
                // drop an existing :mm[:ss]
                let mut j = i;
                while j < body.len() && (body[j] == b':' || body[j].is_ascii_digit()) {
                    j += 1;
                }
                let mut v = body[..i].to_vec();
                if (a / 2) % 2 == 0 {
                    v.extend_from_slice(b":00:");
                } else {
                    v.push(b':');
                }
                v.extend_from_slice(bad);
                v.extend_from_slice(&body[j..]);
                v
            };
            s.footer = [&b"\n"[..], &out[..], b"\n"].concat();
        }
        "footer_unicode_space" => {
            // a non-ASCII white-space character next to the TZ string (not part of any TZ grammar,
            // and not ASCII white space): NEL, NBSP, LINE SEPARATOR, IDEOGRAPHIC SPACE
            let s = f.second.as_mut()?;
            if s.footer.len() < 2 || s.footer.first() != Some(&b'\n') || s.footer.last() != Some(&b'\n') {
                return None;
            }
            let ws: &[u8] = [&b"\xC2\x85"[..], b"\xC2\xA0", b"\xE2\x80\xA8", b"\xE3\x80\x80"][a % 4];
            let l = s.footer.len();
            let pos = if (a / 4) % 2 == 0 { 1 } else { l - 1 };
            let tail = s.footer.split_off(pos);
            s.footer.extend_from_slice(ws);
            s.footer.extend_from_slice(&tail);
        }
        "footer_junk_char" => {
            let s = f.second.as_mut()?;
            if s.footer.len() < 3 || s.footer.last() != Some(&b'\n') {
                return None;
            }
            let c = [b';', b'!', b'*', b'=', b'?'][a % 5];
            let l = s.footer.len();
            s.footer.insert(l - 1, c);
        }
        "h1_typecnt_zero" | "h1_charcnt_zero" | "h1_isstdcnt_bad" | "h1_isutcnt_bad" => {
            // the first header of a version 2+ file violates the count rules, with the 32-bit
            // block kept structurally consistent with the counts it states
            f.second.as_ref()?;
            let b = &mut f.b1;
            match kind {
                "h1_typecnt_zero" => {
                    b.typecnt = 0;
                    b.ttinfo.clear();
                    b.timecnt = 0;
                    b.times.clear();
                    b.idx.clear();
                    b.isstdcnt = 0;
                    b.isstd.clear();
                    b.isutcnt = 0;
                    b.isut.clear();
                    if a % 2 == 0 {
                        b.charcnt = 0;
                        b.chars.clear();
                    }
                }
                "h1_charcnt_zero" => {
                    b.charcnt = 0;
                    b.chars.clear();
                }
                _ => {
                    let tc = b.typecnt;
                    let newc = if a % 2 == 0 || tc < 2 { tc + 1 + (a as u32 / 2) % 3 } else { 1 + (a as u32 / 2) % (tc - 1) };
                    if newc == tc || newc == 0 {
                        return None;
                    }
                    if kind == "h1_isutcnt_bad" {
                        b.isutcnt = newc;
                        b.isut = vec![0; newc as usize];
                    } else {
                        b.isstdcnt = newc;
                        b.isstd = vec![0; newc as usize];
                    }
                }
            }
        }
        "v1_trailing" => {
            if f.second.is_some() {
                return None;
            }
            let n = 1 + a % 9;
            let fill = [0u8, b'\n', b'T', 0xFF][(a / 9) % 4];
            f.trailing = vec![fill; n];
        }
        "trans_idx_oob" => {
            let b = eff(&mut f);
            let n = b.idx.len();
            if n == 0 || b.typecnt >= 256 {
                return None;
            }
            let k = a % n;
            let room = 256 - b.typecnt as usize;
            b.idx[k] = (b.typecnt as usize + (a / n) % room) as u8;
        }
        "trans_unsorted" => {
            let ts = eff_time_size(&f);
            let b = eff(&mut f);
            let n = b.idx.len();
            if n < 2 {
                return None;
            }
            let k = a % (n - 1);
            if (a / n) % 2 == 0 {
                // duplicate a time
                let (lo, hi) = b.times.split_at_mut((k + 1) * ts);
                hi[..ts].copy_from_slice(&lo[k * ts..(k + 1) * ts]);
            } else {
                // swap two neighbours
                for j in 0..ts {
                    b.times.swap(k * ts + j, (k + 1) * ts + j);
                }
            }
        }
        _ => return None,
    }
    Some(serialize(&f))
}

/// Regions of a well-formed v2+ file that a reader must ignore: the data bytes of the
/// v1 block (not its header counts) and the reserved header bytes.
pub fn scribble(orig: &RawFile, arg: u64, fill: u64) -> Option<Vec<u8>> {
    let mut f = orig.clone();
    let mut x = fill | 1;
    let mut next = || {
        x ^= x << 13;
        x ^= x >> 7;
        x ^= x << 17;
        (x >> 24) as u8
    };
    match arg % 3 {
        0 => {
            f.second.as_ref()?;
            let b = &mut f.b1;
            for v in [&mut b.times, &mut b.idx, &mut b.ttinfo, &mut b.chars, &mut b.leaps, &mut b.isstd, &mut b.isut] {
                for c in v.iter_mut() {
                    *c = next();
                }
            }
            if b.times.is_empty() && b.ttinfo.is_empty() {
                return None;
            }
        }
        1 => {
            for c in f.reserved1.iter_mut() {
                *c = next();
            }
        }
        _ => {
            let s = f.second.as_mut()?;
            for c in s.reserved2.iter_mut() {
                *c = next();
            }
        }
    }
    Some(serialize(&f))
}
