//! Canonical rendering of everything the library returns ("deep equal" everywhere
//! means equality of these renderings). Never addresses, never Debug of Io payloads.

use std::fmt::Write;
use tz::datetime::{DateTime, FoundDateTimeKind, UtcDateTime};
use tz::timezone::{LocalTimeType, RuleDay, TimeZoneRef, TransitionRule};
use tz::{Error, TzError};

pub fn ltt(out: &mut String, l: &LocalTimeType) {
    let _ = write!(out, "({},{},{})", l.ut_offset(), l.is_dst() as u8, l.time_zone_designation());
}

pub fn dt(out: &mut String, d: &DateTime) {
    let _ = write!(out, "DT[{}-{}-{} {}:{}:{}.{} ut={} ", d.year(), d.month(), d.month_day(), d.hour(), d.minute(), d.second(), d.nanoseconds(), d.unix_time());
    ltt(out, d.local_time_type());
    let _ = write!(out, " wd={} yd={} tot={} '{}']", d.week_day(), d.year_day(), d.total_nanoseconds(), d);
}

pub fn utc(out: &mut String, d: &UtcDateTime) {
    let _ = write!(out, "UTC[{}-{}-{} {}:{}:{}.{} ut={} wd={} yd={} tot={} '{}']", d.year(), d.month(), d.month_day(), d.hour(), d.minute(), d.second(), d.nanoseconds(), d.unix_time(), d.week_day(), d.year_day(), d.total_nanoseconds(), d);
}

/// how two values relate under the library's own comparison operators (==, partial_cmp, <, >=)
pub fn rel<T: PartialOrd>(out: &mut String, a: &T, b: &T) {
    let _ = write!(out, " rel={:?}/{}{}{}", a.partial_cmp(b), (a == b) as u8, (a < b) as u8, (a >= b) as u8);
}

/// a list of search results, each with its relation to the one before it
pub fn found_list<'a>(out: &mut String, it: impl Iterator<Item = &'a FoundDateTimeKind>) {
    let mut prev: Option<DateTime> = None;
    for f in it {
        found(out, f);
        let first = match f {
            FoundDateTimeKind::Normal(d) => *d,
            FoundDateTimeKind::Skipped { before_transition, .. } => *before_transition,
        };
        if let Some(p) = prev {
            rel(out, &p, &first);
        }
        prev = Some(match f {
            FoundDateTimeKind::Normal(d) => *d,
            FoundDateTimeKind::Skipped { after_transition, .. } => *after_transition,
        });
        out.push(';');
    }
}

pub fn found(out: &mut String, f: &FoundDateTimeKind) {
    match f {
        FoundDateTimeKind::Normal(d) => {
            out.push_str("Normal(");
            dt(out, d);
            out.push(')');
        }
        FoundDateTimeKind::Skipped { before_transition, after_transition } => {
            out.push_str("Skipped(");
            dt(out, before_transition);
            out.push(',');
            dt(out, after_transition);
            rel(out, before_transition, after_transition);
            out.push(')');
        }
    }
}

pub fn opt_dt(out: &mut String, d: &Option<DateTime>) {
    match d {
        None => out.push_str("None"),
        Some(d) => {
            out.push_str("Some(");
            dt(out, d);
            out.push(')');
        }
    }
}

fn day(out: &mut String, d: &RuleDay) {
    match d {
        RuleDay::Julian1WithoutLeap(j) => {
            let _ = write!(out, "J{}", j.get());
        }
        RuleDay::Julian0WithLeap(j) => {
            let _ = write!(out, "{}", j.get());
        }
        RuleDay::MonthWeekDay(m) => {
            let _ = write!(out, "M{}.{}.{}", m.month(), m.week(), m.week_day());
        }
    }
}

pub fn rule(out: &mut String, r: &Option<TransitionRule>) {
    match r {
        None => out.push_str("none"),
        Some(TransitionRule::Fixed(l)) => {
            out.push_str("fixed");
            ltt(out, l);
        }
        Some(TransitionRule::Alternate(a)) => {
            out.push_str("alt");
            ltt(out, a.std());
            ltt(out, a.dst());
            out.push(',');
            day(out, a.dst_start());
            let _ = write!(out, "/{},", a.dst_start_time());
            day(out, a.dst_end());
            let _ = write!(out, "/{}", a.dst_end_time());
        }
    }
}

pub fn zone(out: &mut String, z: TimeZoneRef<'_>) {
    out.push_str("Zone{tr=[");
    for t in z.transitions() {
        let _ = write!(out, "{}:{},", t.unix_leap_time(), t.local_time_type_index());
    }
    out.push_str("] ty=[");
    for l in z.local_time_types() {
        ltt(out, l);
    }
    out.push_str("] lp=[");
    for l in z.leap_seconds() {
        let _ = write!(out, "{}:{},", l.unix_leap_time(), l.correction());
    }
    out.push_str("] rule=");
    rule(out, z.extra_rule());
    out.push('}');
}

/// the `source()` chain of an error value, each link by its Display text
fn sources(out: &mut String, e: &dyn core::error::Error) {
    let mut cur = e.source();
    let mut n = 0;
    while let Some(s) = cur {
        let _ = write!(out, " <- {s}");
        cur = s.source();
        n += 1;
        if n > 8 {
            out.push_str(" <- ...");
            break;
        }
    }
}

/// Any error value of the crate, owned: Debug, Display and `source()` chain of the value itself
/// and of the crate-wide `tz::Error` it converts into (the conversion exists in every feature set).
pub fn anyerr<E: core::error::Error + Into<Error>>(out: &mut String, e: E) {
    let _ = write!(out, "Err({e:?} '{e}'");
    sources(out, &e);
    let u: Error = e.into();
    let _ = write!(out, " as-Error {u:?} '{u}'");
    sources(out, &u);
    out.push(')');
}

pub fn tzerr(out: &mut String, e: &TzError) {
    let _ = write!(out, "Err(Tz:{e:?} '{e}'");
    sources(out, e);
    out.push(')');
}

pub fn err(out: &mut String, e: &Error) {
    match e {
        #[cfg(feature = "tz-alloc")]
        Error::Io(io) => {
            // (the text of an I/O error is the platform's, but the same on both sides of every comparison made here)
            let _ = write!(out, "Err(Io '{io}' '{e}'");
            sources(out, e);
            out.push(')');
        }
        Error::Tz(t) => {
            out.push_str("Err(");
            tzerr(out, t);
            sources(out, e);
            out.push(')');
        }
        #[allow(unreachable_patterns)]
        _ => out.push_str("Err(?)"),
    }
}

/// Shorten a long rendering for event logs, keeping a hash of the whole.
pub fn short(s: &str) -> String {
    if s.len() <= 400 {
        s.to_string()
    } else {
        let mut cut = 300;
        while !s.is_char_boundary(cut) {
            cut -= 1;
        }
        format!("{}...#{:016x}", &s[..cut], crate::prng::fnv(s.as_bytes()))
    }
}
