//! Direct observation of "no operation writes process-global mutable state": the writable
//! data segments (.data/.bss) of this executable - which contain every `static` of the
//! statically linked tz-rs crate - are snapshotted before a library call that crosses no
//! harness seam and compared afterwards. (The heap and libc's own data are not part of it.)

use std::cell::RefCell;
use std::sync::OnceLock;

static RANGES: OnceLock<Vec<(usize, usize)>> = OnceLock::new();
/// address ranges of the harness's own synchronisation statics (baton mutex, condition variables):
/// parked actor threads may touch their futex words at any time
static EXCLUDE: OnceLock<Vec<(usize, usize)>> = OnceLock::new();

pub fn exclude(ranges: Vec<(usize, usize)>) {
    let _ = EXCLUDE.set(ranges);
}

thread_local! {
    static SNAP: RefCell<Vec<u8>> = const { RefCell::new(Vec::new()) };
}

/// Thread-local storage of the executable (which holds every `thread_local!` of the statically
/// linked tz-rs crate): size of the block below the thread pointer, and the offsets (relative to
/// the thread pointer) of the harness's own cells, which are excluded from the comparison.
static TLS: OnceLock<(usize, Vec<(isize, isize)>)> = OnceLock::new();

#[cfg(target_arch = "x86_64")]
fn thread_pointer() -> usize {
    let tp: usize;
    // SAFETY: reads the thread control block's self pointer (fs:0) on x86-64 Linux
    unsafe { std::arch::asm!("mov {}, fs:0", out(reg) tp, options(nostack, readonly, preserves_flags)) };
    tp
}

#[cfg(not(target_arch = "x86_64"))]
fn thread_pointer() -> usize {
    0
}

/// Size (rounded up to its alignment) of the executable's PT_TLS segment.
fn exe_tls_size() -> usize {
    let b = match std::fs::read("/proc/self/exe") {
        Ok(b) => b,
        Err(_) => return 0,
    };
    if b.len() < 64 || &b[..4] != b"\x7fELF" || b[4] != 2 {
        return 0;
    }
    let u64at = |o: usize| u64::from_le_bytes(b[o..o + 8].try_into().unwrap()) as usize;
    let u16at = |o: usize| u16::from_le_bytes(b[o..o + 2].try_into().unwrap()) as usize;
    let (phoff, phentsize, phnum) = (u64at(32), u16at(54), u16at(56));
    for i in 0..phnum {
        let o = phoff + i * phentsize;
        if o + 56 > b.len() {
            break;
        }
        let ptype = u32::from_le_bytes(b[o..o + 4].try_into().unwrap());
        if ptype == 7 {
            let memsz = u64at(o + 40);
            let align = u64at(o + 48).max(1);
            return (memsz + align - 1) / align * align;
        }
    }
    0
}

/// Register the harness's own thread-local cells (addresses on the calling thread). Call once.
pub fn init_tls(cells: Vec<(usize, usize)>) {
    let tp = thread_pointer();
    let size = exe_tls_size();
    if tp == 0 || size == 0 || size > 65536 {
        let _ = TLS.set((0, Vec::new()));
        return;
    }
    let mut ex: Vec<(isize, isize)> = Vec::new();
    let mut all_inside = true;
    let own = SNAP.with(|s| (s as *const _ as usize, std::mem::size_of_val(s)));
    for (a, n) in cells.into_iter().chain(std::iter::once(own)) {
        if a < tp - size || a + n > tp {
            all_inside = false;
        }
        // a margin covers the adjacent registration-state byte of cells that have destructors
        ex.push((a as isize - tp as isize - 16, (a + n) as isize - tp as isize + 16));
    }
    // the standard library keeps a per-thread hash seed (bumped by every `RandomState::new()`); a
    // library that merely creates a HashMap does not keep state of its own: learn where that cell is
    // by creating two seeds here and seeing which bytes move, and leave it out of the comparison
    if all_inside {
        let _ = std::collections::hash_map::RandomState::new();
        // SAFETY: the executable's TLS block of the current thread, [tp - size, tp)
        let before: Vec<u8> = unsafe { std::slice::from_raw_parts((tp - size) as *const u8, size) }.to_vec();
        let _ = std::collections::hash_map::RandomState::new();
        let after: &[u8] = unsafe { std::slice::from_raw_parts((tp - size) as *const u8, size) };
        for i in 0..size {
            if before[i] != after[i] && !ex.iter().any(|(a, b)| (i as isize - size as isize) >= *a && (i as isize - size as isize) < *b) {
                let rel = i as isize - size as isize;
                ex.push((rel - 24, rel + 24));
            }
        }
    }
    // if the layout assumption (executable's block directly below the thread pointer) does not hold, do not scan
    let _ = TLS.set(if all_inside { (size, ex) } else { (0, Vec::new()) });
}

pub fn tls_bytes() -> usize {
    TLS.get().map_or(0, |t| t.0)
}

/// Find the writable, file-backed mappings of the running executable (and the anonymous
/// mapping that directly continues them, i.e. the rest of .bss). Call once at start-up.
pub fn init() {
    let exe = std::env::current_exe().ok().map(|p| p.to_string_lossy().into_owned()).unwrap_or_default();
    let maps = std::fs::read_to_string("/proc/self/maps").unwrap_or_default();
    let mut ranges: Vec<(usize, usize)> = Vec::new();
    let mut last_end = 0usize;
    for line in maps.lines() {
        let mut it = line.split_whitespace();
        let (range, perms) = (it.next().unwrap_or(""), it.next().unwrap_or(""));
        let path = it.nth(3).unwrap_or("");
        let (a, b) = match range.split_once('-') {
            Some((a, b)) => (usize::from_str_radix(a, 16).unwrap_or(0), usize::from_str_radix(b, 16).unwrap_or(0)),
            None => continue,
        };
        if perms.starts_with("rw") && path == exe {
            ranges.push((a, b));
            last_end = b;
        } else if perms.starts_with("rw") && path.is_empty() && a == last_end && last_end != 0 {
            ranges.push((a, b));
            last_end = b;
        } else {
            // only a directly adjacent anonymous mapping counts as the continuation of .bss
            if a != last_end {
                last_end = if perms.starts_with("rw") && path == exe { b } else { 0 };
            }
        }
    }
    let _ = RANGES.set(ranges);
}

pub fn total_bytes() -> usize {
    RANGES.get().map_or(0, |r| r.iter().map(|(a, b)| b - a).sum())
}

/// Make sure this thread's snapshot buffer exists (allocates; call outside measurement windows).
pub fn prepare() {
    let n = total_bytes() + tls_bytes();
    SNAP.with(|s| {
        let mut s = s.borrow_mut();
        if s.len() != n {
            s.resize(n, 0);
        }
    });
}

/// Copy the segments into the thread's buffer (no allocation if `prepare` was called).
pub fn snapshot() {
    let ranges = match RANGES.get() {
        Some(r) => r,
        None => return,
    };
    SNAP.with(|s| {
        let mut s = s.borrow_mut();
        let mut off = 0;
        for (a, b) in ranges {
            let n = b - a;
            if off + n > s.len() {
                return;
            }
            // SAFETY: the range is a readable mapping of this process, found in /proc/self/maps
            unsafe { std::ptr::copy_nonoverlapping(*a as *const u8, s[off..].as_mut_ptr(), n) };
            off += n;
        }
        let tn = tls_bytes();
        if tn > 0 && off + tn <= s.len() {
            let tp = thread_pointer();
            // SAFETY: the executable's TLS block of the current thread, [tp - size, tp)
            unsafe { std::ptr::copy_nonoverlapping((tp - tn) as *const u8, s[off..].as_mut_ptr(), tn) };
        }
    });
}

/// Compare the current thread's TLS block with the snapshot; returns (offset below the thread
/// pointer, old, new) of the first difference outside the harness's own cells.
pub fn tls_changed() -> Option<(usize, u8, u8)> {
    let (tn, ex) = TLS.get()?;
    if *tn == 0 {
        return None;
    }
    let off = total_bytes();
    let tp = thread_pointer();
    SNAP.with(|s| {
        let s = s.try_borrow().ok()?;
        if off + tn > s.len() {
            return None;
        }
        // SAFETY: as in `snapshot`
        let cur = unsafe { std::slice::from_raw_parts((tp - tn) as *const u8, *tn) };
        for i in 0..*tn {
            if cur[i] != s[off + i] {
                let rel = i as isize - *tn as isize;
                if !ex.iter().any(|(a, b)| rel >= *a && rel < *b) {
                    return Some((tn - i, s[off + i], cur[i]));
                }
            }
        }
        None
    })
}

/// Compare the segments with the snapshot. Returns (offset into the segments, old byte, new byte)
/// of the first difference.
pub fn changed() -> Option<(usize, u8, u8)> {
    let ranges = RANGES.get()?;
    SNAP.with(|s| {
        let s = s.borrow();
        let mut off = 0;
        for (a, b) in ranges {
            let n = b - a;
            if off + n > s.len() {
                return None;
            }
            // SAFETY: as above
            let cur = unsafe { std::slice::from_raw_parts(*a as *const u8, n) };
            if cur != &s[off..off + n] {
                for i in 0..n {
                    if cur[i] != s[off + i] {
                        let addr = *a + i;
                        let excluded = EXCLUDE.get().map_or(false, |e| e.iter().any(|(x, y)| addr >= *x && addr < *y));
                        if !excluded {
                            return Some((off + i, s[off + i], cur[i]));
                        }
                    }
                }
            }
            off += n;
        }
        None
    })
}

/// Human-readable location for a change reported by `changed` / `tls_changed` (the latter encoded as usize::MAX - offset).
pub fn describe(off: usize) -> String {
    if off > usize::MAX / 2 {
        format!("thread-local storage of the executable, {} bytes below the thread pointer", usize::MAX - off)
    } else {
        format!("writable data segment, offset {off:#x}")
    }
}
