//! tzsim worker: deterministic simulation of tz-rs callers, storage and clock.
//!
//!   tzsim run <prop> --seed S --start A --count N --out DIR --worker K [--cold-every M] [--recheck-every M]
//!   tzsim replay <file> [--quiet]
//!   tzsim gen <prop> <seed>
//!   tzsim alone            (scenario on stdin; prints the canonical result of the last operation)
//!   tzsim sweep <kind> --out DIR --worker K --of W [--sample-permille P] --seed S
//!   tzsim merge <dir>
//!   tzsim selftest

mod alloc;
mod canon;
mod consts;
mod construct;
mod crumb;
mod exec;
mod gen;
mod oracle;
mod posix;
mod prng;
mod refmodel;
mod scn;
mod seam;
mod shrink;
mod spec;
mod statics;
mod sweep;
mod tzif;
mod world;

use exec::{execute, Armed, ExecOpts};
use scn::Scenario;
use std::collections::{BTreeMap, BTreeSet};
use std::io::{Read, Write};
use std::time::{Duration, Instant};
use world::Corpus;

#[global_allocator]
static GLOBAL: alloc::Tracking = alloc::Tracking;

pub fn jstr(s: &str) -> String {
    let mut o = String::from("\"");
    for c in s.chars() {
        match c {
            '"' => o.push_str("\\\""),
            '\\' => o.push_str("\\\\"),
            '\n' => o.push_str("\\n"),
            '\r' => o.push_str("\\r"),
            '\t' => o.push_str("\\t"),
            c if (c as u32) < 0x20 => o.push_str(&format!("\\u{:04x}", c as u32)),
            c => o.push(c),
        }
    }
    o.push('"');
    o
}

fn arg<'a>(args: &'a [String], name: &str) -> Option<&'a str> {
    args.iter().position(|a| a == name).and_then(|i| args.get(i + 1)).map(|s| s.as_str())
}

fn corpus_root() -> String {
    std::env::var("TZSIM_CORPUS").unwrap_or_else(|_| "/verif/corpus".to_string())
}

pub fn seed_for(prop: &str, verif_seed: u64, i: u64) -> u64 {
    let mut x = verif_seed ^ prng::fnv(prop.as_bytes());
    prng::splitmix(&mut x).wrapping_add(i)
}

fn repo_describe() -> String {
    std::process::Command::new("git").args(["-C", "/repo", "describe", "--always", "--dirty"]).output().ok().map(|o| String::from_utf8_lossy(&o.stdout).trim().to_string()).unwrap_or_default()
}

/// The build profile of this worker (release = optimised with overflow checks and debug assertions,
/// plain = ordinary release, dev = unoptimised): a replay file is replayed by the same kind of build.
pub fn build_profile() -> &'static str {
    let exe = std::env::current_exe().map(|p| p.to_string_lossy().into_owned()).unwrap_or_default();
    if exe.contains("/target/debug/") {
        "dev"
    } else if exe.contains("/target/plain/") {
        "plain"
    } else {
        "release"
    }
}

pub fn write_replay(dir: &str, name: &str, sc: &Scenario, oracle: &str, sig: &str, detail: &str, corpus: &mut Corpus, armed: Armed) -> String {
    let _ = std::fs::create_dir_all(dir);
    let out = execute(sc, corpus, armed, &ExecOpts { log_events: true, ..Default::default() });
    let mut s = String::new();
    s.push_str(&format!("# property {}\n# oracle {oracle}\n# signature {sig}\n# detail {}\n# seed {}\n# repo {}\n# profile {}\n# sched_digest {:016x}\n# result_digest {:016x}\n", sc.prop, detail.replace('\n', " "), sc.seed, repo_describe(), build_profile(), out.sched_digest, out.result_digest));
    s.push_str(&sc.text());
    s.push_str("# ---- history of the minimised run\n");
    for e in &out.events {
        s.push_str(&format!("# {}\n", e.replace('\n', "\\n")));
    }
    let path = format!("{dir}/{name}.scn");
    let _ = std::fs::write(&path, s);
    path
}

/// Execute the prelude (earlier generator indices, same process) and then the scenario itself.
pub fn execute_full(sc: &Scenario, corpus: &mut Corpus, armed: Armed, opts: &ExecOpts) -> exec::Outcome {
    if let Some(p) = &sc.prelude {
        let quiet = ExecOpts { log_events: false, cold: false, exe: opts.exe.clone() };
        let parmed = Armed::for_prop(&p.prop);
        for j in p.first..p.first + p.count {
            let psc = gen::generate(&p.prop, seed_for(&p.prop, p.verif_seed, j));
            let _ = execute(&psc, corpus, parmed, &quiet);
            if p.recheck_every > 0 && j % p.recheck_every == 0 {
                let _ = execute(&psc, corpus, parmed, &quiet);
            }
        }
    }
    match sc.repeat {
        None => execute(sc, corpus, armed, opts),
        Some(n) => {
            // a violation that is itself nondeterministic: up to n executions, the first one that shows
            // a violation is returned; executions that differ from one another are a violation as well
            let mut first: Option<(u64, u64)> = None;
            let mut last = None;
            for k in 0..n.max(1) {
                let mut out = execute(sc, corpus, armed, opts);
                let d = (out.sched_digest, out.result_digest);
                if let Some(f) = first {
                    if f != d && armed.c15 {
                        out.violations.push(world::Violation { oracle: "C15.result_nondeterminism".into(), sig: "history-differs-between-two-executions".into(), detail: format!("execution {} of the same scenario in this process produced a different history from execution 1", k + 1) });
                    }
                } else {
                    first = Some(d);
                }
                let stop = out.violations.iter().any(|v| !v.oracle.starts_with("HARNESS"));
                last = Some(out);
                if stop {
                    break;
                }
            }
            last.unwrap()
        }
    }
}

/// Evaluate a scenario in a fresh child process; returns the oracle ids it violates there.
pub fn child_violations(exe: &str, sc: &Scenario, twice: bool) -> Option<Vec<String>> {
    use std::process::{Command, Stdio};
    let mut cmd = Command::new(exe);
    cmd.arg("check-stdin");
    if twice {
        cmd.arg("--twice");
    }
    let mut child = cmd.stdin(Stdio::piped()).stdout(Stdio::piped()).stderr(Stdio::null()).spawn().ok()?;
    child.stdin.take()?.write_all(sc.text().as_bytes()).ok()?;
    let o = child.wait_with_output().ok()?;
    if !o.status.success() {
        // the child died: that is itself a reproduction of a crash-class violation
        return Some(vec!["C07.abort".to_string()]);
    }
    Some(String::from_utf8_lossy(&o.stdout).lines().filter_map(|l| l.strip_prefix("V ")).map(|l| l.split(' ').next().unwrap_or("").to_string()).collect())
}

/// Same, but returns (oracle, sig, detail) of the first violation of `oracle` seen in the child.
pub fn child_detail(exe: &str, sc: &Scenario, oracle: &str) -> Option<(String, String, String)> {
    use std::process::{Command, Stdio};
    let mut child = Command::new(exe).arg("check-stdin").stdin(Stdio::piped()).stdout(Stdio::piped()).stderr(Stdio::null()).spawn().ok()?;
    child.stdin.take()?.write_all(sc.text().as_bytes()).ok()?;
    let o = child.wait_with_output().ok()?;
    for l in String::from_utf8_lossy(&o.stdout).lines() {
        if let Some(r) = l.strip_prefix("V ") {
            let mut it = r.splitn(3, ' ');
            let (a, b, c) = (it.next()?, it.next()?, it.next().unwrap_or(""));
            if a == oracle {
                return Some((a.to_string(), b.to_string(), c.trim_start_matches(":: ").to_string()));
            }
        }
    }
    None
}

#[derive(Default)]
struct Agg {
    evaluations: u64,
    nontrivial: Vec<u64>,
    interleavings: Vec<u64>,
    states: BTreeSet<u64>,
    faults: BTreeMap<String, u64>,
    probes: BTreeMap<String, u64>,
    switches: u64,
    yields: u64,
    reads: u64,
    ops: u64,
    clock_advance_ns: u128,
    foreign: u64,
    rechecks: u64,
    recheck_mismatch: u64,
    harness_errors: Vec<String>,
    found: Vec<(String, String, String, String)>,
    samples: Vec<String>,
    state_dependent_tries: u32,
    nondet_tries: u32,
}

fn write_u64s(path: &str, v: &[u64]) {
    let mut b = Vec::with_capacity(v.len() * 8);
    for x in v {
        b.extend_from_slice(&x.to_le_bytes());
    }
    let _ = std::fs::write(path, b);
}

fn read_u64s(path: &std::path::Path) -> Vec<u64> {
    let b = std::fs::read(path).unwrap_or_default();
    b.chunks_exact(8).map(|c| u64::from_le_bytes(c.try_into().unwrap())).collect()
}

fn cmd_run(args: &[String]) -> i32 {
    let prop = args[0].clone();
    let verif_seed: u64 = arg(args, "--seed").and_then(|s| s.parse().ok()).unwrap_or(1);
    let start: u64 = arg(args, "--start").and_then(|s| s.parse().ok()).unwrap_or(0);
    let count: u64 = arg(args, "--count").and_then(|s| s.parse().ok()).unwrap_or(1000);
    let out_dir = arg(args, "--out").unwrap_or("/tmp/tzsim-out").to_string();
    let worker: String = arg(args, "--worker").unwrap_or("0").to_string();
    let cold_every: u64 = arg(args, "--cold-every").and_then(|s| s.parse().ok()).unwrap_or(0);
    let recheck_every: u64 = arg(args, "--recheck-every").and_then(|s| s.parse().ok()).unwrap_or(101);
    let time_limit: f64 = arg(args, "--time-limit").and_then(|s| s.parse().ok()).unwrap_or(1e9);
    let replay_dir = arg(args, "--replays").unwrap_or("/verif/replays").to_string();
    let dump_path = arg(args, "--dump").map(|s| s.to_string());
    let mut dump = String::new();
    let _ = std::fs::create_dir_all(&out_dir);
    crumb::init(&format!("{out_dir}/crumb-{worker}"));
    let armed = Armed::for_prop(&prop);
    let exe = std::env::current_exe().map(|p| p.to_string_lossy().into_owned()).unwrap_or_default();
    let mut corpus = Corpus { root: corpus_root(), ..Default::default() };
    let mut agg = Agg::default();
    let t0 = Instant::now();
    let mut max_input: usize = 1 << 20;
    let mut i = start;
    while i < start + count {
        if t0.elapsed().as_secs_f64() > time_limit {
            break;
        }
        let seed = seed_for(&prop, verif_seed, i);
        crumb::set(i);
        let sc = gen::generate(&prop, seed);
        let cold = cold_every > 0 && i % cold_every == 0;
        let opts = ExecOpts { log_events: agg.samples.len() < 2 && (worker == "0" || worker.ends_with("-0")), cold, exe: exe.clone() };
        let out = execute(&sc, &mut corpus, armed, &opts);
        agg.evaluations += 1;
        let sd = sc.digest();
        if dump_path.is_some() {
            dump.push_str(&format!("{i} {sd:016x} {:016x} {:016x} {}\n", out.sched_digest, out.result_digest, out.violations.len()));
        }
        if out.nontrivial {
            agg.nontrivial.push(sd);
        }
        if out.stats.switches > 0 {
            agg.interleavings.push(out.stats.interleave);
        }
        for s in &out.stats.states {
            agg.states.insert(*s);
        }
        for (k, v) in &out.stats.faults {
            *agg.faults.entry(k.to_string()).or_insert(0) += v;
        }
        for (k, v) in &out.stats.probes {
            *agg.probes.entry(k.to_string()).or_insert(0) += v;
        }
        agg.switches += out.stats.switches;
        agg.yields += out.stats.yields;
        agg.reads += out.stats.reads;
        agg.ops += out.stats.ops;
        agg.clock_advance_ns += out.stats.clock_advance_ns;
        agg.foreign += out.stats.foreign;
        if opts.log_events && agg.samples.len() < 2 {
            let mut s = sc.text();
            s.push_str("---- history\n");
            for e in out.events.iter().take(60) {
                s.push_str(e);
                s.push('\n');
            }
            if s.len() > 6000 {
                let mut cut = 6000;
                while !s.is_char_boundary(cut) {
                    cut -= 1;
                }
                s.truncate(cut);
                s.push_str("\n...(truncated)");
            }
            agg.samples.push(s);
        }
        max_input = max_input.max(sc.contents.len());
        // determinism re-check: same scenario, second execution, digests must agree
        if recheck_every > 0 && i % recheck_every == 0 {
            agg.rechecks += 1;
            let out2 = execute(&sc, &mut corpus, armed, &ExecOpts { log_events: false, cold: false, exe: exe.clone() });
            if out2.sched_digest != out.sched_digest || out2.result_digest != out.result_digest {
                // same scenario, same process, different history: the library's behaviour depends on
                // something the scenario does not contain
                agg.recheck_mismatch += 1;
                if armed.c15 && agg.found.iter().filter(|f| f.0 == "C15.result_nondeterminism").count() < 2 {
                    let twice = child_violations(&exe, &sc, true).map_or(false, |os| os.iter().any(|o| o == "C15.result_nondeterminism"));
                    if twice {
                        let path = write_replay(&replay_dir, &format!("{prop}-{seed}-{i}-nondet"), &sc, "C15.result_nondeterminism", "history-differs-between-two-executions", "two executions of the same scenario in one process produced different histories", &mut corpus, armed);
                        agg.found.push(("C15.result_nondeterminism".into(), "history-differs-between-two-executions".into(), "two executions of the same scenario (same schedule decisions, same faults) in one process produced different histories: results depend on state kept from earlier calls".into(), path));
                    }
                }
            }
        }
        let mut seen_oracles: BTreeSet<String> = BTreeSet::new();
        for v in &out.violations {
            if v.oracle.starts_with("HARNESS") {
                agg.harness_errors.push(format!("{} {} (seed {seed} index {i})", v.oracle, v.detail));
                continue;
            }
            if !seen_oracles.insert(format!("{} {}", v.oracle, v.sig)) {
                continue;
            }
            // at most a few replay files per (oracle, sig) per worker
            let already = agg.found.iter().filter(|f| f.0 == v.oracle && f.1 == v.sig && !f.3.is_empty()).count();
            let tried = agg.found.iter().filter(|f| f.0 == v.oracle && f.1 == v.sig).count();
            if already >= 2 || tried >= 12 {
                agg.found.push((v.oracle.clone(), v.sig.clone(), v.detail.clone(), String::new()));
                continue;
            }
            let reproduces = |cand: &Scenario| child_violations(&exe, cand, false).map_or(false, |os| os.iter().any(|o| *o == v.oracle));
            let mut fin: Option<Scenario> = None;
            if reproduces(&sc) {
                // minimise in-process first (fast); fall back to fresh-process evaluation of every candidate
                let mut sh = shrink::Shrinker { corpus: &mut corpus, armed, opts: ExecOpts { log_events: false, cold, exe: exe.clone() }, oracle: v.oracle.clone(), budget: 2000, deadline: Instant::now() + Duration::from_secs(12), runs: 0, child_exe: None };
                let small = sh.shrink(&sc);
                if reproduces(&small) {
                    fin = Some(small);
                } else {
                    let mut sh = shrink::Shrinker { corpus: &mut corpus, armed, opts: ExecOpts { log_events: false, cold, exe: exe.clone() }, oracle: v.oracle.clone(), budget: 400, deadline: Instant::now() + Duration::from_secs(20), runs: 0, child_exe: Some(exe.clone()) };
                    let small = sh.shrink(&sc);
                    fin = Some(if reproduces(&small) { small } else { sc.clone() });
                }
            } else if agg.found.iter().filter(|f| f.0 == v.oracle && !f.3.is_empty()).count() == 0 && agg.state_dependent_tries < 3 {
                // depends on what earlier scenarios of this worker left behind: replay them as a prelude,
                // then bisect the prelude down
                agg.state_dependent_tries += 1;
                let mut with = sc.clone();
                with.prelude = Some(scn::Prelude { prop: prop.clone(), verif_seed, first: start, count: i - start, recheck_every });
                if reproduces(&with) {
                    let mut first = start;
                    let mut count = i - start;
                    // drop leading halves while it still reproduces
                    let mut step = count / 2;
                    let t_end = Instant::now() + Duration::from_secs(30);
                    while step >= 1 && Instant::now() < t_end {
                        let mut cand = sc.clone();
                        cand.prelude = Some(scn::Prelude { prop: prop.clone(), verif_seed, first: first + step, count: count - step, recheck_every });
                        if count > step && reproduces(&cand) {
                            first += step;
                            count -= step;
                            step = step.min(count / 2).max(if count > 1 { 1 } else { 0 });
                            if count <= 1 {
                                break;
                            }
                        } else {
                            step /= 2;
                        }
                    }
                    with.prelude = Some(scn::Prelude { prop: prop.clone(), verif_seed, first, count, recheck_every });
                    fin = Some(with);
                }
            }
            if fin.is_none() && armed.c15 && agg.nondet_tries < 4 {
                // not reproducible by a single execution in a fresh process, with or without what ran before:
                // the violation may itself be nondeterministic (a randomised hash seed, an address): repeat
                agg.nondet_tries += 1;
                let mut with = sc.clone();
                with.repeat = Some(32);
                if reproduces(&with) {
                    let mut sh = shrink::Shrinker { corpus: &mut corpus, armed, opts: ExecOpts { log_events: false, cold, exe: exe.clone() }, oracle: v.oracle.clone(), budget: 200, deadline: Instant::now() + Duration::from_secs(20), runs: 0, child_exe: Some(exe.clone()) };
                    let small = sh.shrink(&with);
                    fin = Some(if reproduces(&small) { small } else { with });
                }
            }
            match fin {
                Some(fin) => {
                    let det = match child_detail(&exe, &fin, &v.oracle) {
                        Some((o, s, d)) => world::Violation { oracle: o, sig: s, detail: d },
                        None => v.clone(),
                    };
                    let path = write_replay(&replay_dir, &format!("{prop}-{seed}-{i}-{}", v.oracle.replace('.', "_")), &fin, &det.oracle, &det.sig, &det.detail, &mut corpus, armed);
                    agg.found.push((det.oracle.clone(), det.sig.clone(), det.detail.clone(), path));
                }
                None => agg.found.push((v.oracle.clone(), v.sig.clone(), v.detail.clone(), String::new())),
            }
        }
        i += 1;
    }
    crumb::done();
    if let Some(p) = &dump_path {
        let _ = std::fs::write(p, &dump);
    }
    // ---- write worker results
    write_u64s(&format!("{out_dir}/nontrivial-{worker}.bin"), &agg.nontrivial);
    write_u64s(&format!("{out_dir}/interleavings-{worker}.bin"), &agg.interleavings);
    write_u64s(&format!("{out_dir}/states-{worker}.bin"), &agg.states.iter().copied().collect::<Vec<_>>());
    let mut j = String::from("{");
    j.push_str(&format!("\"worker\":\"{worker}\",\"evaluations\":{},\"first_index\":{start},\"next_index\":{i},\"first_seed\":{},\"wall_s\":{:.3},", agg.evaluations, seed_for(&prop, verif_seed, start), t0.elapsed().as_secs_f64()));
    j.push_str(&format!("\"switches\":{},\"yields\":{},\"reads\":{},\"ops\":{},\"clock_advance_ns\":{},\"foreign\":{},\"rechecks\":{},\"recheck_mismatch\":{},", agg.switches, agg.yields, agg.reads, agg.ops, agg.clock_advance_ns, agg.foreign, agg.rechecks, agg.recheck_mismatch));
    j.push_str(&format!("\"syscall_seam\":{},\"static_bytes_compared\":{},\"tls_bytes_compared\":{},", seam::present(), statics::total_bytes(), statics::tls_bytes()));
    j.push_str("\"faults\":{");
    j.push_str(&agg.faults.iter().map(|(k, v)| format!("{}:{v}", jstr(k))).collect::<Vec<_>>().join(","));
    j.push_str("},\"probes\":{");
    j.push_str(&agg.probes.iter().map(|(k, v)| format!("{}:{v}", jstr(k))).collect::<Vec<_>>().join(","));
    j.push_str("},\"harness_errors\":[");
    j.push_str(&agg.harness_errors.iter().take(20).map(|s| jstr(s)).collect::<Vec<_>>().join(","));
    j.push_str("],\"found\":[");
    j.push_str(&agg.found.iter().map(|(o, s, d, p)| format!("{{\"oracle\":{},\"sig\":{},\"detail\":{},\"replay\":{}}}", jstr(o), jstr(s), jstr(d), jstr(p))).collect::<Vec<_>>().join(","));
    j.push_str("],\"samples\":[");
    j.push_str(&agg.samples.iter().map(|s| jstr(s)).collect::<Vec<_>>().join(","));
    j.push_str("]}");
    let _ = std::fs::write(format!("{out_dir}/stats-{worker}.json"), j);
    0
}

fn cmd_replay(args: &[String]) -> i32 {
    let path = &args[0];
    let quiet = args.iter().any(|a| a == "--quiet");
    let text = match std::fs::read_to_string(path) {
        Ok(t) => t,
        Err(e) => {
            eprintln!("cannot read {path}: {e}");
            return 2;
        }
    };
    let sc = match Scenario::parse(&text) {
        Ok(s) => s,
        Err(e) => {
            eprintln!("cannot parse {path}: {e}");
            return 2;
        }
    };
    let want_oracle = text.lines().find_map(|l| l.strip_prefix("# oracle ")).map(|s| s.trim().to_string());
    let want_result = text.lines().find_map(|l| l.strip_prefix("# result_digest ")).map(|s| s.trim().to_string());
    let armed = Armed::for_prop(&sc.prop);
    let mut corpus = Corpus { root: corpus_root(), ..Default::default() };
    let exe = std::env::current_exe().map(|p| p.to_string_lossy().into_owned()).unwrap_or_default();
    let cold = sc.prop == "C15";
    let out = execute_full(&sc, &mut corpus, armed, &ExecOpts { log_events: true, cold, exe: exe.clone() });
    let mut extra: Vec<world::Violation> = Vec::new();
    if want_oracle.as_deref() == Some("C15.result_nondeterminism") {
        let out2 = execute(&sc, &mut corpus, armed, &ExecOpts { log_events: false, cold: false, exe });
        if out2.sched_digest != out.sched_digest || out2.result_digest != out.result_digest {
            extra.push(world::Violation { oracle: "C15.result_nondeterminism".into(), sig: "history-differs-between-two-executions".into(), detail: "second execution of the same scenario in this process produced a different history".into() });
        }
    }
    if !quiet {
        for e in &out.events {
            println!("{e}");
        }
    }
    println!("sched_digest {:016x}", out.sched_digest);
    println!("result_digest {:016x}", out.result_digest);
    if let Some(w) = &want_result {
        println!("recorded result_digest {w}: {}", if *w == format!("{:016x}", out.result_digest) { "same history" } else { "DIFFERENT history" });
    }
    let mut hit = false;
    for v in out.violations.iter().chain(extra.iter()) {
        println!("VIOLATED oracle={} sig={} :: {}", v.oracle, v.sig, v.detail);
        if want_oracle.as_deref().map_or(true, |w| w == v.oracle) {
            hit = true;
        }
    }
    if hit {
        println!("VIOLATION property={} replay={path}", sc.prop);
        1
    } else {
        println!("no violation of {} on replay", sc.prop);
        0
    }
}

fn cmd_merge(args: &[String]) -> i32 {
    // no library code runs here: the allocation cap (crash containment) does not apply
    alloc::set_cap(usize::MAX);
    let dir = &args[0];
    let mut sets: BTreeMap<&str, Vec<u64>> = BTreeMap::new();
    if let Ok(rd) = std::fs::read_dir(dir) {
        for e in rd.flatten() {
            let name = e.file_name().to_string_lossy().into_owned();
            for k in ["nontrivial", "interleavings", "states"] {
                if name.starts_with(k) && name.ends_with(".bin") {
                    sets.entry(k).or_default().extend(read_u64s(&e.path()));
                }
            }
        }
    }
    let mut o = String::from("{");
    let mut first = true;
    for k in ["nontrivial", "interleavings", "states"] {
        let mut v = sets.remove(k).unwrap_or_default();
        let total = v.len();
        v.sort_unstable();
        v.dedup();
        if !first {
            o.push(',');
        }
        first = false;
        o.push_str(&format!("\"{k}_total\":{total},\"{k}_distinct\":{}", v.len()));
    }
    o.push('}');
    println!("{o}");
    0
}

fn main() {
    let args: Vec<String> = std::env::args().skip(1).collect();
    if args.is_empty() {
        eprintln!("usage: tzsim run|replay|gen|alone|sweep|merge|selftest ...");
        std::process::exit(2);
    }
    exec::install_panic_hook();
    statics::init();
    seam::init();
    let mut ex = world::sync_static_ranges();
    ex.push(exec::shared_static_range());
    statics::exclude(ex);
    {
        let mut cells = alloc::tls_cells();
        cells.extend(world::tls_cells());
        cells.extend(exec::tls_cells());
        statics::init_tls(cells);
    }
    // a single request above 64 MiB + 16 x (largest input, < 1 MiB) is refused => recorded abort
    alloc::set_cap(64 * 1024 * 1024 + 16 * (1 << 20));
    tz::verif_hooks::set_clock(world::sim_clock);
    seam::set_fs_hook(world::fs_request_hook);
    for k in ["TZ", "TZDIR", "LANG", "LC_ALL", "LC_TIME"].iter().chain(exec::DECOY_VARS.iter()) {
        std::env::remove_var(k);
    }
    let code = match args[0].as_str() {
        "run" => match std::panic::catch_unwind(|| cmd_run(&args[1..])) {
            Ok(c) => c,
            Err(_) => {
                eprintln!("HARNESS PANIC: {}", exec::LAST_PANIC.with(|p| p.borrow().clone()));
                101
            }
        },
        "replay" => cmd_replay(&args[1..]),
        "gen" => {
            let seed: u64 = args.get(2).and_then(|s| s.parse().ok()).unwrap_or(1);
            print!("{}", gen::generate(&args[1], seed).text());
            0
        }
        "genidx" => {
            let vs: u64 = args.get(2).and_then(|s| s.parse().ok()).unwrap_or(1);
            let i: u64 = args.get(3).and_then(|s| s.parse().ok()).unwrap_or(0);
            print!("{}", gen::generate(&args[1], seed_for(&args[1], vs, i)).text());
            0
        }
        "alone" => {
            let mut text = String::new();
            let _ = std::io::stdin().read_to_string(&mut text);
            match Scenario::parse(&text) {
                Ok(sc) => {
                    let mut corpus = Corpus { root: corpus_root(), ..Default::default() };
                    let out = execute(&sc, &mut corpus, Armed::default(), &ExecOpts::default());
                    let _ = std::io::stdout().write_all(out.last_canon.as_bytes());
                    0
                }
                Err(e) => {
                    eprintln!("{e}");
                    2
                }
            }
        }
        "check-stdin" => {
            let mut text = String::new();
            let _ = std::io::stdin().read_to_string(&mut text);
            match Scenario::parse(&text) {
                Ok(sc) => {
                    let mut corpus = Corpus { root: corpus_root(), ..Default::default() };
                    let armed = Armed::for_prop(&sc.prop);
                    let exe = std::env::current_exe().map(|p| p.to_string_lossy().into_owned()).unwrap_or_default();
                    let out = execute_full(&sc, &mut corpus, armed, &ExecOpts { log_events: false, cold: sc.prop == "C15" && sc.prelude.is_none(), exe: exe.clone() });
                    for v in &out.violations {
                        println!("V {} {} :: {}", v.oracle, v.sig, v.detail.replace('\n', " "));
                    }
                    if args.iter().any(|a| a == "--twice") {
                        let out2 = execute(&sc, &mut corpus, armed, &ExecOpts { log_events: false, cold: false, exe });
                        if out2.sched_digest != out.sched_digest || out2.result_digest != out.result_digest {
                            println!("V C15.result_nondeterminism history-differs-between-two-executions");
                        }
                    }
                    0
                }
                Err(e) => {
                    eprintln!("{e}");
                    2
                }
            }
        }
        "sweep" => sweep::cmd_sweep(&args[1..]),
        "merge" => cmd_merge(&args[1..]),
        "selftest" => sweep::cmd_selftest(&args[1..]),
        _ => {
            eprintln!("unknown command {}", args[0]);
            2
        }
    };
    let _ = std::fs::remove_dir_all(world::live_dir());
    std::process::exit(code);
}
