//! Tracking global allocator: per-thread live/peak/count counters, an
//! "allocation forbidden" monitor flag and a hard cap that turns an absurd
//! request into a recorded abort instead of a 64 GB allocation.
//!
//! Only a monitor: it never makes an ordinary allocation fail.

use std::alloc::{GlobalAlloc, Layout, System};
use std::cell::Cell;
use std::sync::atomic::{AtomicUsize, Ordering};

pub struct Tracking;

thread_local! {
    static LIVE: Cell<isize> = const { Cell::new(0) };
    static PEAK: Cell<isize> = const { Cell::new(0) };
    static COUNT: Cell<u64> = const { Cell::new(0) };
    static FORBID: Cell<bool> = const { Cell::new(false) };
    static FORBID_HITS: Cell<u64> = const { Cell::new(0) };
    static MAXREQ: Cell<usize> = const { Cell::new(0) };
    /// live bytes at the start of the measurement window
    static BASE: Cell<isize> = const { Cell::new(0) };
    /// net bytes allocated by harness code inside the window (not the library's)
    static OFFSET: Cell<isize> = const { Cell::new(0) };
    /// peak tracking is suspended while harness code runs inside the window
    static PAUSED: Cell<bool> = const { Cell::new(false) };
    /// recording of the blocks a library call leaves allocated (the memory of the value it returned)
    static RECORDING: Cell<bool> = const { Cell::new(false) };
    static REC_N: Cell<usize> = const { Cell::new(0) };
    static REC: Cell<[(usize, usize); REC_MAX]> = const { Cell::new([(0, 0); REC_MAX]) };
}

pub const REC_MAX: usize = 24;

#[inline]
fn rec_add(ptr: usize, size: usize) {
    let _ = RECORDING.try_with(|r| {
        if r.get() && !PAUSED.try_with(|p| p.get()).unwrap_or(true) {
            let _ = REC_N.try_with(|n| {
                let k = n.get();
                if k < REC_MAX {
                    let _ = REC.try_with(|a| {
                        let mut v = a.get();
                        v[k] = (ptr, size);
                        a.set(v);
                    });
                }
                n.set(k + 1);
            });
        }
    });
}

#[inline]
fn rec_del(ptr: usize) {
    let _ = RECORDING.try_with(|r| {
        if r.get() {
            let _ = REC_N.try_with(|n| {
                let k = n.get().min(REC_MAX);
                let _ = REC.try_with(|a| {
                    let mut v = a.get();
                    for i in 0..k {
                        if v[i].0 == ptr {
                            v[i] = v[k - 1];
                            v[k - 1] = (0, 0);
                            a.set(v);
                            if n.get() <= REC_MAX {
                                n.set(n.get() - 1);
                            }
                            return;
                        }
                    }
                });
            });
        }
    });
}

/// Start recording the blocks allocated (and not freed again) on this thread outside harness sections.
pub fn record_start() {
    REC_N.with(|n| n.set(0));
    RECORDING.with(|r| r.set(true));
}

/// Stop recording; returns the blocks still live, or None if there were more than REC_MAX.
pub fn record_take() -> Option<Vec<(usize, usize)>> {
    RECORDING.with(|r| r.set(false));
    let n = REC_N.with(|n| n.get());
    if n > REC_MAX {
        return None;
    }
    let v = REC.with(|a| a.get());
    Some(v[..n].iter().copied().filter(|b| b.0 != 0).collect())
}

/// Single requests above this size are refused (null => Rust aborts).
static CAP: AtomicUsize = AtomicUsize::new(usize::MAX);
/// Number of refused requests (visible to crash containment through the breadcrumb).
pub static CAP_HITS: AtomicUsize = AtomicUsize::new(0);

#[inline]
fn on_alloc(size: usize) {
    let _ = LIVE.try_with(|l| {
        let v = l.get() + size as isize;
        l.set(v);
        let paused = PAUSED.try_with(|p| p.get()).unwrap_or(true);
        if !paused {
            let rel = v - BASE.try_with(|b| b.get()).unwrap_or(0) - OFFSET.try_with(|o| o.get()).unwrap_or(0);
            let _ = PEAK.try_with(|p| {
                if rel > p.get() {
                    p.set(rel)
                }
            });
        }
    });
    let _ = COUNT.try_with(|c| c.set(c.get() + 1));
    let _ = MAXREQ.try_with(|m| {
        if size > m.get() {
            m.set(size)
        }
    });
    let _ = FORBID.try_with(|f| {
        if f.get() && !PAUSED.try_with(|p| p.get()).unwrap_or(true) {
            let _ = FORBID_HITS.try_with(|h| h.set(h.get() + 1));
        }
    });
}

#[inline]
fn on_dealloc(size: usize) {
    let _ = LIVE.try_with(|l| l.set(l.get() - size as isize));
}

unsafe impl GlobalAlloc for Tracking {
    unsafe fn alloc(&self, layout: Layout) -> *mut u8 {
        if layout.size() > CAP.load(Ordering::Relaxed) {
            CAP_HITS.fetch_add(1, Ordering::Relaxed);
            crate::crumb::mark_alloc_cap(layout.size());
            return std::ptr::null_mut();
        }
        let p = System.alloc(layout);
        if !p.is_null() {
            on_alloc(layout.size());
            rec_add(p as usize, layout.size());
        }
        p
    }

    unsafe fn alloc_zeroed(&self, layout: Layout) -> *mut u8 {
        if layout.size() > CAP.load(Ordering::Relaxed) {
            CAP_HITS.fetch_add(1, Ordering::Relaxed);
            crate::crumb::mark_alloc_cap(layout.size());
            return std::ptr::null_mut();
        }
        let p = System.alloc_zeroed(layout);
        if !p.is_null() {
            on_alloc(layout.size());
            rec_add(p as usize, layout.size());
        }
        p
    }

    unsafe fn dealloc(&self, ptr: *mut u8, layout: Layout) {
        rec_del(ptr as usize);
        System.dealloc(ptr, layout);
        on_dealloc(layout.size());
    }

    unsafe fn realloc(&self, ptr: *mut u8, layout: Layout, new_size: usize) -> *mut u8 {
        if new_size > CAP.load(Ordering::Relaxed) {
            CAP_HITS.fetch_add(1, Ordering::Relaxed);
            crate::crumb::mark_alloc_cap(new_size);
            return std::ptr::null_mut();
        }
        let p = System.realloc(ptr, layout, new_size);
        if !p.is_null() {
            rec_del(ptr as usize);
            on_dealloc(layout.size());
            on_alloc(new_size);
            rec_add(p as usize, new_size);
        }
        p
    }
}

pub fn live() -> isize {
    LIVE.with(|l| l.get())
}

pub fn count() -> u64 {
    COUNT.with(|c| c.get())
}

/// Start a measurement window: base := live, harness offset := 0, peak := 0, max request := 0.
pub fn window_start() -> isize {
    let l = live();
    BASE.with(|b| b.set(l));
    OFFSET.with(|o| o.set(0));
    PAUSED.with(|p| p.set(false));
    PEAK.with(|p| p.set(0));
    MAXREQ.with(|m| m.set(0));
    l
}

/// Peak of (live - base - harness bytes) since the window started.
pub fn peak() -> isize {
    PEAK.with(|p| p.get())
}

/// Net bytes the harness allocated inside the window.
pub fn offset() -> isize {
    OFFSET.with(|o| o.get())
}

/// Harness code starts inside the window. Returns a token for `resume`.
pub fn pause() -> (isize, bool) {
    let was = PAUSED.with(|p| p.replace(true));
    (live(), was)
}

/// After a panic unwound through a harness section: leave the paused state.
pub fn unpause() {
    PAUSED.with(|p| p.set(false));
}

/// Harness code ends; `handed` bytes of what it allocated now belong to the library.
pub fn resume(token: (isize, bool), handed: isize) {
    let (l0, was) = token;
    if was {
        return; // nested harness section: the outermost one accounts for everything
    }
    let d = live() - l0 - handed;
    OFFSET.with(|o| o.set(o.get() + d));
    PAUSED.with(|p| p.set(false));
    let rel = live() - BASE.with(|b| b.get()) - OFFSET.with(|o| o.get());
    PEAK.with(|p| {
        if rel > p.get() {
            p.set(rel)
        }
    });
}

pub fn max_request() -> usize {
    MAXREQ.with(|m| m.get())
}

pub fn set_forbid(on: bool) {
    FORBID.with(|f| f.set(on));
}

pub fn forbid_hits() -> u64 {
    FORBID_HITS.with(|h| h.get())
}

pub fn set_cap(cap: usize) {
    CAP.store(cap, Ordering::Relaxed);
}

/// (address, size) of this module's thread-local cells on the calling thread (for the TLS comparison's exclusion list).
pub fn tls_cells() -> Vec<(usize, usize)> {
    fn r<T>(x: &T) -> (usize, usize) {
        (x as *const T as usize, std::mem::size_of::<T>())
    }
    vec![LIVE.with(r), PEAK.with(r), COUNT.with(r), FORBID.with(r), FORBID_HITS.with(r), MAXREQ.with(r), BASE.with(r), OFFSET.with(r), PAUSED.with(r), RECORDING.with(r), REC_N.with(r), REC.with(r)]
}
