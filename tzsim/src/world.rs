//! Simulated world: content store, SimFs, fault application, the read seam
//! (`sim_read`), the simulated clock and the baton scheduler.

use crate::alloc;
use crate::prng::{fnv, fnv_add};
use crate::scn::{Content, ErrKind, Fault, Scenario};
use crate::tzif;
use std::cell::{Cell, RefCell};
use std::collections::{BTreeMap, BTreeSet};
use std::sync::{Arc, Condvar, Mutex, MutexGuard};
use std::time::Duration;
use tz::TimeZone;

#[derive(Clone, Debug)]
pub struct Violation {
    pub oracle: String,
    pub sig: String,
    pub detail: String,
}

/// What decoding the delivered bytes must give.
#[derive(Clone, Debug)]
pub enum Expect {
    /// exactly this zone
    Zone(Arc<TimeZone>),
    /// must be refused with a decoding (Tz) error; the string says why
    Reject(String),
    /// a well-formed IANA file: must decode, and agree with the reference decoder
    CorpusOk,
    /// a generated file that is well-formed by the harness's independent judgement although the
    /// library's constructor refuses the spec: must decode, and agree with the reference decoder
    WellFormed,
    /// nothing known: if it decodes it must agree with the reference decoder
    Unknown,
}

impl Expect {
    pub fn wellformed(&self) -> bool {
        matches!(self, Expect::Zone(_) | Expect::CorpusOk | Expect::WellFormed)
    }
    pub fn tag(&self) -> &'static str {
        match self {
            Expect::Zone(_) => "zone",
            Expect::Reject(_) => "reject",
            Expect::CorpusOk => "corpus",
            Expect::WellFormed => "wellformed",
            Expect::Unknown => "unknown",
        }
    }
}

#[derive(Clone)]
pub struct RContent {
    pub bytes: Arc<Vec<u8>>,
    pub expect: Expect,
}

pub struct FileState {
    pub cid: usize,
    pub prev: Option<usize>,
    pub perm: Option<ErrKind>,
    /// non-atomic overwrite in progress: (new content, bytes already written)
    pub upgrade: Option<(usize, usize)>,
}

#[derive(Clone)]
pub struct ReadRec {
    pub seq: u32,
    pub path: String,
    pub res: Result<(Arc<Vec<u8>>, Expect), ErrKind>,
}

#[derive(Default, Clone, Debug)]
pub struct RunStats {
    pub faults: BTreeMap<&'static str, u64>,
    pub probes: BTreeMap<&'static str, u64>,
    pub switches: u64,
    pub yields: u64,
    pub reads: u64,
    pub ops: u64,
    pub clock_advance_ns: u128,
    pub states: BTreeSet<u64>,
    pub interleave: u64,
    pub foreign: u64,
}

impl RunStats {
    pub fn probe(&mut self, name: &'static str) {
        *self.probes.entry(name).or_insert(0) += 1;
    }
    pub fn fault(&mut self, name: &'static str) {
        *self.faults.entry(name).or_insert(0) += 1;
    }
}

pub struct World {
    pub files: BTreeMap<String, FileState>,
    pub contents: Vec<RContent>,
    pub faults: BTreeMap<u32, Fault>,
    pub read_seq: u32,
    pub clock: i128,
    pub events: Vec<String>,
    pub sched_h: u64,
    pub result_h: u64,
    pub threaded: bool,
    pub current: usize,
    pub alive: Vec<bool>,
    pub in_resolve: Vec<bool>,
    pub sched: Vec<u32>,
    pub sched_pos: usize,
    pub stats: RunStats,
    pub violations: Vec<Violation>,
    pub log_events: bool,
    /// actor threads that have finished their runtime start-up and reached the start gate
    pub arrived: usize,
    /// contents installed, in order, under each name of the live (real) directory during this scenario
    pub live_hist: BTreeMap<String, Vec<usize>>,
}

pub static WORLD: Mutex<Option<World>> = Mutex::new(None);
pub static CV: Condvar = Condvar::new();
/// one condition variable per actor, so that handing the baton over wakes exactly one thread
pub static CVS: [Condvar; 16] = [const { Condvar::new() }; 16];

thread_local! {
    /// set while this thread is inside a library call through the default (real file system) reader:
    /// every file-system request it makes is then a scheduling point
    pub static LIVE_CALL: Cell<bool> = const { Cell::new(false) };
    pub static ME: Cell<usize> = const { Cell::new(0) };
    pub static OP_READS: RefCell<Vec<ReadRec>> = const { RefCell::new(Vec::new()) };
    pub static CLOCK_READS: RefCell<Vec<i128>> = const { RefCell::new(Vec::new()) };
    /// when set, reads are served from a recorded list (alone re-execution)
    pub static REPLAY: RefCell<Option<ReplayReader>> = const { RefCell::new(None) };
    /// when set, the clock hook answers this reading (alone re-execution)
    pub static REPLAY_CLOCK: Cell<Option<i128>> = const { Cell::new(None) };
}

pub struct ReplayReader {
    pub recs: Vec<ReadRec>,
    pub pos: usize,
    pub diverged: Option<String>,
}

/// (address, size) of this module's thread-local cells on the calling thread.
pub fn tls_cells() -> Vec<(usize, usize)> {
    fn r<T>(x: &T) -> (usize, usize) {
        (x as *const T as usize, std::mem::size_of::<T>())
    }
    vec![ME.with(r), OP_READS.with(r), CLOCK_READS.with(r), REPLAY.with(r), REPLAY_CLOCK.with(r)]
}

/// Address ranges of the statics that parked actor threads may touch (for `statics::exclude`).
pub fn sync_static_ranges() -> Vec<(usize, usize)> {
    fn r<T>(x: &T) -> (usize, usize) {
        let a = x as *const T as usize;
        (a, a + std::mem::size_of::<T>())
    }
    vec![r(&WORLD), r(&CV), r(&CVS)]
}

pub fn lock() -> MutexGuard<'static, Option<World>> {
    WORLD.lock().unwrap_or_else(|e| e.into_inner())
}

/// The shim's callback: a file-system request is about to be made by this thread.
pub extern "C" fn fs_request_hook(_kind: i32) {
    if LIVE_CALL.with(|c| c.get()) {
        yield_point(ME.with(|m| m.get()), "syscall");
    }
}

/// The worker's own directory of real files (under /verif/target, never under /tmp).
pub fn live_dir() -> String {
    let root = std::env::var("TZSIM_LIVE").unwrap_or_else(|_| format!("{}/../target/live", std::env::var("TZSIM_CORPUS").unwrap_or_else(|_| "/verif/corpus".into())));
    format!("{root}/{}", std::process::id())
}

/// Run harness code inside a measurement window without charging it to the library.
pub fn harness<T>(f: impl FnOnce() -> T) -> T {
    let tok = alloc::pause();
    let t = f();
    alloc::resume(tok, 0);
    t
}

impl World {
    pub fn ev(&mut self, class: u8, s: String) {
        match class {
            0 => self.sched_h = fnv_add(self.sched_h, s.as_bytes()),
            1 => self.result_h = fnv_add(self.result_h, s.as_bytes()),
            _ => {}
        }
        if self.log_events {
            self.events.push(s);
        }
    }

    pub fn violate(&mut self, oracle: &str, sig: &str, detail: String) {
        self.violations.push(Violation { oracle: oracle.to_string(), sig: sig.to_string(), detail });
    }
}

// ------------------------------------------------------------------ contents

#[derive(Default)]
pub struct Corpus {
    pub root: String,
    pub cache: BTreeMap<String, Arc<Vec<u8>>>,
}

impl Corpus {
    pub fn get(&mut self, rel: &str) -> Arc<Vec<u8>> {
        if let Some(b) = self.cache.get(rel) {
            return b.clone();
        }
        let b = Arc::new(std::fs::read(format!("{}/{}", self.root, rel)).unwrap_or_default());
        self.cache.insert(rel.to_string(), b.clone());
        b
    }
}

pub fn resolve_contents(sc: &Scenario, corpus: &mut Corpus) -> Vec<RContent> {
    let mut out: Vec<RContent> = Vec::new();
    for c in &sc.contents {
        let rc = match c {
            Content::Gen(z) => match z.bytes() {
                None => RContent { bytes: Arc::new(Vec::new()), expect: Expect::Reject("unwritable".into()) },
                Some(b) => {
                    // the library's own constructor gives the value to compare with; whether the spec is a
                    // well-formed zone at all is judged independently where the small model takes a position
                    let expect = match (crate::refmodel::independently_valid(z), z.expected()) {
                        (Some(false), _) => Expect::Reject("spec_invalid".into()),
                        (_, Ok(tz)) => Expect::Zone(Arc::new(tz)),
                        (Some(true), Err(())) => Expect::WellFormed,
                        (None, Err(())) => Expect::Reject("spec_invalid".into()),
                    };
                    RContent { bytes: Arc::new(b), expect }
                }
            },
            Content::Corpus(p) => {
                let b = corpus.get(p);
                let expect = if b.is_empty() { Expect::Reject("missing_corpus_file".into()) } else { Expect::CorpusOk };
                RContent { bytes: b, expect }
            }
            Content::Typed { base, kind, arg } => {
                let basec = out.get(*base).cloned().unwrap_or(RContent { bytes: Arc::new(Vec::new()), expect: Expect::Reject("truncation".into()) });
                let r = if basec.expect.wellformed() { tzif::parse_raw(&basec.bytes).and_then(|raw| tzif::typed(&raw, kind, *arg)) } else { None };
                match r {
                    Some(b) => RContent { bytes: Arc::new(b), expect: Expect::Reject(format!("typed:{kind}")) },
                    None => basec,
                }
            }
            // bytes that do not even begin with the magic number are no TZif file, whatever else they may be
            // (for instance the text of a valid TZ description)
            Content::Hex(b) => RContent { bytes: Arc::new(b.clone()), expect: if b.len() < 4 || &b[..4] != b"TZif" { Expect::Reject("bad_magic".into()) } else { Expect::Unknown } },
            Content::PingPong { n, d } => {
                let z = crate::spec::pingpong_spec(*n, *d);
                match (z.bytes(), z.expected()) {
                    (Some(b), Ok(tz)) => RContent { bytes: Arc::new(b), expect: Expect::Zone(Arc::new(tz)) },
                    _ => RContent { bytes: Arc::new(Vec::new()), expect: Expect::Reject("unwritable".into()) },
                }
            }
            Content::Fill { len, byte } => RContent { bytes: Arc::new(vec![*byte; (*len).min(8 << 20)]), expect: Expect::Unknown },
        };
        out.push(rc);
    }
    out
}

/// Apply a fault to delivered bytes. Returns (bytes, expectation, fired).
pub fn apply_fault(contents: &[RContent], base: &RContent, prev: Option<usize>, fault: &Fault) -> Result<(Arc<Vec<u8>>, Expect, bool), ErrKind> {
    let len = base.bytes.len();
    let wf = base.expect.wellformed();
    let unchanged = || Ok((base.bytes.clone(), base.expect.clone(), false));
    match fault {
        Fault::Err(k) => Err(k.clone()),
        Fault::Short(k) => {
            if *k < len {
                Ok((Arc::new(base.bytes[..*k].to_vec()), if wf { Expect::Reject("truncation".into()) } else { Expect::Unknown }, true))
            } else {
                unchanged()
            }
        }
        Fault::Empty => Ok((Arc::new(Vec::new()), Expect::Reject("truncation".into()), true)),
        Fault::ZeroTail(k) => {
            if *k < len {
                let mut b = base.bytes.to_vec();
                for c in b[*k..].iter_mut() {
                    *c = 0;
                }
                let same = b == **base.bytes;
                Ok((Arc::new(b), if same { base.expect.clone() } else { Expect::Unknown }, true))
            } else {
                unchanged()
            }
        }
        Fault::Torn(cid, k) => match contents.get(*cid) {
            None => unchanged(),
            Some(other) => {
                let k1 = (*k).min(len);
                let k2 = (*k).min(other.bytes.len());
                let mut b = base.bytes[..k1].to_vec();
                b.extend_from_slice(&other.bytes[k2..]);
                if b == **base.bytes {
                    unchanged()
                } else if b == **other.bytes {
                    Ok((Arc::new(b), other.expect.clone(), true))
                } else {
                    Ok((Arc::new(b), Expect::Unknown, true))
                }
            }
        },
        Fault::Stale => match prev.and_then(|p| contents.get(p)) {
            None => unchanged(),
            Some(p) => Ok((p.bytes.clone(), p.expect.clone(), true)),
        },
        Fault::Flip(bits) => {
            if len == 0 || bits.is_empty() {
                return unchanged();
            }
            let mut b = base.bytes.to_vec();
            for x in bits {
                let pos = (*x % (len as u64 * 8)) as usize;
                b[pos / 8] ^= 1 << (pos % 8);
            }
            if b == **base.bytes {
                unchanged()
            } else {
                Ok((Arc::new(b), Expect::Unknown, true))
            }
        }
        Fault::GarbageAppend(n, fill) => {
            if *n == 0 {
                return unchanged();
            }
            let mut b = base.bytes.to_vec();
            b.extend(std::iter::repeat(*fill).take(*n));
            // trailing bytes after a well-formed v1 body must be refused; after a v2+ footer nothing is known
            let v1 = wf && base.bytes.get(4) == Some(&0);
            Ok((Arc::new(b), if v1 { Expect::Reject("v1_trailing".into()) } else { Expect::Unknown }, true))
        }
        Fault::Scribble(a, f) => {
            if !wf {
                return unchanged();
            }
            match tzif::parse_raw(&base.bytes).and_then(|raw| tzif::scribble(&raw, *a, *f)) {
                Some(b) => Ok((Arc::new(b), base.expect.clone(), true)),
                None => unchanged(),
            }
        }
        Fault::Typed(kind, arg) => {
            if !wf {
                return unchanged();
            }
            match tzif::parse_raw(&base.bytes).and_then(|raw| tzif::typed(&raw, kind, *arg)) {
                Some(b) => Ok((Arc::new(b), Expect::Reject(format!("typed:{kind}")), true)),
                None => unchanged(),
            }
        }
    }
}

// ------------------------------------------------------------------ read seam

#[derive(Debug)]
pub struct SimIoError {
    pub kind: u8,
    pub seq: u32,
}

impl std::fmt::Display for SimIoError {
    fn fmt(&self, f: &mut std::fmt::Formatter) -> std::fmt::Result {
        write!(f, "simulated I/O error {} (not an io::Error)", self.kind)
    }
}

impl std::error::Error for SimIoError {}

type ReadResult = Result<Vec<u8>, Box<dyn std::error::Error + Send + Sync + 'static>>;

fn errbox(kind: &ErrKind, seq: u32) -> Box<dyn std::error::Error + Send + Sync + 'static> {
    use std::io::ErrorKind as K;
    // what `std::fs::read` would hand back: a real io::Error carrying the OS error code, or one of
    // the code-less kinds std produces itself (no heap allocation: both are stored inline);
    // or, for a reader that is not std's, some other error type altogether
    let os = |k: i32| -> Box<dyn std::error::Error + Send + Sync + 'static> { Box::new(std::io::Error::from_raw_os_error(k)) };
    let simple = |k: K| -> Box<dyn std::error::Error + Send + Sync + 'static> { Box::new(std::io::Error::from(k)) };
    match kind {
        ErrKind::Enoent => os(2),
        ErrKind::Eacces => os(13),
        ErrKind::Eio => os(5),
        ErrKind::Eisdir => os(21),
        ErrKind::Eintr => os(4),
        ErrKind::Einval => os(22),
        ErrKind::Enotdir => os(20),
        ErrKind::Eloop => os(40),
        ErrKind::Enametoolong => os(36),
        ErrKind::Enomem => os(12),
        ErrKind::Eagain => os(11),
        ErrKind::KInvalidInput => simple(K::InvalidInput),
        ErrKind::KInvalidData => simple(K::InvalidData),
        ErrKind::KOther => simple(K::Other),
        ErrKind::KUnexpectedEof => simple(K::UnexpectedEof),
        ErrKind::Custom => Box::new(SimIoError { kind: 5, seq }),
    }
}

/// A reader that never finds anything (the "empty world").
pub fn empty_read(_path: &str) -> ReadResult {
    Err(Box::new(SimIoError { kind: 2, seq: u32::MAX }))
}

/// The read seam handed to `TimeZoneSettings::new`.
pub fn sim_read(path: &str) -> ReadResult {
    let tok = alloc::pause();
    let ret = sim_read_inner(path);
    // everything allocated in here is harness memory, except what is handed to the library
    let handed = match &ret {
        Ok(v) => v.capacity() as isize,
        Err(_) => std::mem::size_of::<std::io::Error>() as isize,
    };
    alloc::resume(tok, handed);
    ret
}

fn sim_read_inner(path: &str) -> ReadResult {
    // alone re-execution: serve the recorded outcomes
    let replayed = REPLAY.with(|r| {
        let mut r = r.borrow_mut();
        let rr = r.as_mut()?;
        let i = rr.pos;
        rr.pos += 1;
        match rr.recs.get(i) {
            Some(rec) if rec.path == path => Some(match &rec.res {
                Ok((b, _)) => Ok(b.to_vec()),
                Err(k) => Err(errbox(k, rec.seq)),
            }),
            Some(rec) => {
                if rr.diverged.is_none() {
                    rr.diverged = Some(format!("read #{i}: alone run asked for {path:?}, concurrent run asked for {:?}", rec.path));
                }
                Some(Err(errbox(&ErrKind::Enoent, u32::MAX)))
            }
            None => {
                if rr.diverged.is_none() {
                    rr.diverged = Some(format!("read #{i}: alone run asked for {path:?}, concurrent run made only {} reads", rr.recs.len()));
                }
                Some(Err(errbox(&ErrKind::Enoent, u32::MAX)))
            }
        }
    });
    if let Some(r) = replayed {
        return r;
    }

    let me = ME.with(|m| m.get());
    let seq;
    {
        let mut g = lock();
        let w = g.as_mut().expect("sim_read outside a run");
        seq = w.read_seq;
        w.read_seq += 1;
        w.stats.reads += 1;
        w.ev(1, format!("a{me} read-invoke r{seq} {path:?}"));
    }
    yield_point(me, "pre-read");
    let res: Result<(Arc<Vec<u8>>, Expect), ErrKind>;
    {
        let mut g = lock();
        let w = g.as_mut().unwrap();
        res = w.serve(path, seq);
        match &res {
            Ok((b, e)) => {
                let d = fnv(b);
                w.ev(1, format!("a{me} read-return r{seq} {path:?} ok len={} digest={d:016x} expect={}", b.len(), e.tag()));
            }
            Err(k) => w.ev(1, format!("a{me} read-return r{seq} {path:?} {}", k.text())),
        }
    }
    OP_READS.with(|r| r.borrow_mut().push(ReadRec { seq, path: path.to_string(), res: res.clone() }));
    yield_point(me, "post-read");
    match res {
        Ok((b, _)) => Ok(b.to_vec()),
        Err(k) => Err(errbox(&k, seq)),
    }
}

impl World {
    /// Decide the outcome of read #seq of `path`.
    fn serve(&mut self, path: &str, seq: u32) -> Result<(Arc<Vec<u8>>, Expect), ErrKind> {
        let fault = self.faults.get(&seq).cloned();
        // error faults fire whether or not the file exists
        if let Some(Fault::Err(k)) = &fault {
            self.stats.fault(k.text());
            return Err(k.clone());
        }
        let (base, prev) = match self.files.get(path) {
            None => {
                let dirprefix = format!("{path}/");
                let is_dir = !path.is_empty() && self.files.range(dirprefix.clone()..).next().map_or(false, |(k, _)| k.starts_with(&dirprefix));
                if is_dir {
                    self.stats.probe("read_of_directory");
                    return Err(ErrKind::Eisdir);
                }
                return Err(ErrKind::Enoent);
            }
            Some(f) => {
                if let Some(e) = &f.perm {
                    self.stats.fault("perm");
                    return Err(e.clone());
                }
                let cur = self.contents.get(f.cid).cloned().unwrap_or(RContent { bytes: Arc::new(Vec::new()), expect: Expect::Reject("truncation".into()) });
                match f.upgrade {
                    None => (cur, f.prev),
                    Some((newc, cut)) => {
                        let new = self.contents.get(newc).cloned().unwrap_or(cur.clone());
                        let k1 = cut.min(new.bytes.len());
                        let k2 = cut.min(cur.bytes.len());
                        let mut b = new.bytes[..k1].to_vec();
                        b.extend_from_slice(&cur.bytes[k2..]);
                        self.stats.fault("torn_upgrade");
                        let e = if b == **new.bytes {
                            new.expect.clone()
                        } else if b == **cur.bytes {
                            cur.expect.clone()
                        } else {
                            Expect::Unknown
                        };
                        (RContent { bytes: Arc::new(b), expect: e }, Some(f.cid))
                    }
                }
            }
        };
        match fault {
            None => Ok((base.bytes, base.expect)),
            Some(f) => {
                let (b, e, fired) = apply_fault(&self.contents, &base, prev, &f)?;
                if fired {
                    self.stats.fault(f.kind());
                }
                Ok((b, e))
            }
        }
    }
}

// ------------------------------------------------------------------ clock seam

pub fn reading_to_duration(r: i128) -> Result<Duration, Duration> {
    let a = r.unsigned_abs();
    let secs = (a / 1_000_000_000).min(u64::MAX as u128) as u64;
    let ns = (a % 1_000_000_000) as u32;
    if r >= 0 {
        Ok(Duration::new(secs, ns))
    } else {
        Err(Duration::new(secs, ns))
    }
}

/// The clock handed to tz-rs's guarded hook.
pub fn sim_clock() -> Result<Duration, Duration> {
    if let Some(r) = REPLAY_CLOCK.with(|c| c.get()) {
        return reading_to_duration(r);
    }
    let r = {
        let g = lock();
        match g.as_ref() {
            Some(w) => w.clock,
            None => 0,
        }
    };
    harness(|| CLOCK_READS.with(|c| c.borrow_mut().push(r)));
    reading_to_duration(r)
}

// ------------------------------------------------------------------ baton scheduler

/// A scheduling point of actor `me`. Consumes one scheduler entry; 0 = stay.
pub fn yield_point(me: usize, kind: &'static str) {
    let mut g = lock();
    let w = match g.as_mut() {
        Some(w) => w,
        None => return,
    };
    if !w.threaded {
        return;
    }
    let v = w.sched.get(w.sched_pos).copied().unwrap_or(0);
    w.sched_pos += 1;
    w.stats.yields += 1;
    let next = if v == 0 {
        me
    } else {
        let runnable: Vec<usize> = (0..w.alive.len()).filter(|&i| w.alive[i]).collect();
        runnable[(v as usize - 1) % runnable.len()]
    };
    w.stats.interleave = fnv_add(w.stats.interleave, &[me as u8, kind.as_bytes()[1], next as u8]);
    w.ev(0, format!("yield a{me} {kind} -> a{next}"));
    if next != me {
        w.stats.switches += 1;
        if w.in_resolve[me] && kind != "op" {
            w.stats.probe("switch_inside_resolution");
        }
        w.current = next;
        CVS[next % 16].notify_one();
        while g.as_ref().map_or(false, |w| w.current != me) {
            g = CVS[me % 16].wait(g).unwrap_or_else(|e| e.into_inner());
        }
    }
}

/// Block until it is `me`'s turn (thread start).
pub fn wait_turn(me: usize) {
    let mut g = lock();
    if let Some(w) = g.as_mut() {
        w.arrived += 1;
    }
    CV.notify_all();
    while g.as_ref().map_or(false, |w| w.threaded && w.current != me) {
        g = CVS[me % 16].wait(g).unwrap_or_else(|e| e.into_inner());
    }
}

/// Actor `me` has no more operations: hand the baton to someone alive.
pub fn finish(me: usize) {
    let mut g = lock();
    let w = match g.as_mut() {
        Some(w) => w,
        None => return,
    };
    if !w.threaded {
        return;
    }
    w.alive[me] = false;
    let runnable: Vec<usize> = (0..w.alive.len()).filter(|&i| w.alive[i]).collect();
    if runnable.is_empty() {
        w.current = usize::MAX;
    } else {
        let v = w.sched.get(w.sched_pos).copied().unwrap_or(0);
        w.sched_pos += 1;
        let next = if v == 0 { runnable[0] } else { runnable[(v as usize - 1) % runnable.len()] };
        w.ev(0, format!("finish a{me} -> a{next}"));
        w.current = next;
        CVS[next % 16].notify_one();
    }
    CV.notify_all();
    // do not exit (thread teardown touches process-global runtime state) while other actors may be
    // inside a library call: wait until every actor has finished
    if g.as_ref().map_or(false, |w| w.current == usize::MAX) {
        // last one out wakes the others
        for c in CVS.iter() {
            c.notify_all();
        }
    }
    while g.as_ref().map_or(false, |w| w.threaded && w.current != usize::MAX) {
        g = CVS[me % 16].wait(g).unwrap_or_else(|e| e.into_inner());
    }
}
