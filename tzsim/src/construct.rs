//! Client-misuse operations: public constructors and conversions called with
//! boundary-biased numbers. Workload sampling that rides along (C07), not what any
//! level claim rests on.

use crate::canon;
use std::fmt::Write;
use tz::datetime::{DateTime, UtcDateTime};
use tz::timezone::{AlternateTime, Julian0WithLeap, Julian1WithoutLeap, LeapSecond, LocalTimeType, MonthWeekDay, RuleDay, TimeZoneRef, Transition, TransitionRule};
#[cfg(feature = "tz-alloc")]
use tz::timezone::TimeZoneSettings;
#[cfg(feature = "tz-alloc")]
use tz::TimeZone;

#[cfg(feature = "tz-alloc")]
fn empty_read(_path: &str) -> Result<Vec<u8>, Box<dyn std::error::Error + Send + Sync + 'static>> {
    Err("not found".into())
}

const DESIGS: &[Option<&[u8]>] = &[None, Some(b""), Some(b"AB"), Some(b"ABC"), Some(b"ABCDEFG"), Some(b"ABCDEFGH"), Some(b"A\0C"), Some(b"+03"), Some(b"-0330"), Some(b"\xC3\x89TE"), Some(b"a b"), Some(b"UTC")];

fn kfound(y: i32, mo: u8, d: u8, h: u8, mi: u8, s: u8, z: TimeZoneRef<'_>) -> Result<usize, tz::TzError> {
    let mut b = [None; 8];
    DateTime::find_n(&mut b, y, mo, d, h, mi, s, 0, z).map(|l| l.count())
}

fn a(args: &[i64], i: usize) -> i64 {
    args.get(i).copied().unwrap_or(0)
}

fn day(k: i64, x: i64, y: i64, z: i64) -> Result<RuleDay, tz::error::timezone::TransitionRuleError> {
    Ok(match k.rem_euclid(3) {
        0 => RuleDay::Julian1WithoutLeap(Julian1WithoutLeap::new(x as u16)?),
        1 => RuleDay::Julian0WithLeap(Julian0WithLeap::new(x as u16)?),
        _ => RuleDay::MonthWeekDay(MonthWeekDay::new(x as u8, y as u8, z as u8)?),
    })
}

pub fn run(kind: &str, args: &[i64]) -> String {
    let mut o = String::new();
    match kind {
        "ltt" => {
            let d = DESIGS[(a(args, 2).unsigned_abs() % DESIGS.len() as u64) as usize];
            match LocalTimeType::new(a(args, 0) as i32, a(args, 1) != 0, d) {
                Ok(l) => canon::ltt(&mut o, &l),
                Err(e) => {
                    canon::anyerr(&mut o, e);
                }
            }
        }
        "ltt_off" => match LocalTimeType::with_ut_offset(a(args, 0) as i32) {
            Ok(l) => canon::ltt(&mut o, &l),
            Err(e) => {
                canon::anyerr(&mut o, e);
            }
        },
        #[cfg(feature = "tz-alloc")]
        "fixed" => match TimeZone::fixed(a(args, 0) as i32) {
            Ok(z) => canon::zone(&mut o, z.as_ref()),
            Err(e) => {
                canon::anyerr(&mut o, e);
            }
        },
        "utc_new" => match UtcDateTime::new(a(args, 0) as i32, a(args, 1) as u8, a(args, 2) as u8, a(args, 3) as u8, a(args, 4) as u8, a(args, 5) as u8, a(args, 6) as u32) {
            Ok(u) => {
                canon::utc(&mut o, &u);
                // round trip through the timestamp
                if let Ok(b) = UtcDateTime::from_timespec(u.unix_time(), u.nanoseconds()) {
                    o.push_str(" rt=");
                    canon::utc(&mut o, &b);
                    // the same instant written two ways (second 60 / second 0 of the next minute) under the comparison operators
                    canon::rel(&mut o, &u, &b);
                }
                let _ = u.project(TimeZoneRef::utc());
            }
            Err(e) => canon::anyerr(&mut o, e),
        },
        "dt_new" => {
            let l = match LocalTimeType::with_ut_offset(a(args, 7) as i32) {
                Ok(l) => l,
                Err(_) => LocalTimeType::utc(),
            };
            match DateTime::new(a(args, 0) as i32, a(args, 1) as u8, a(args, 2) as u8, a(args, 3) as u8, a(args, 4) as u8, a(args, 5) as u8, a(args, 6) as u32, l) {
                Ok(d) => {
                    canon::dt(&mut o, &d);
                    // the same instant through its timestamp (second 60 becomes second 0 of the next minute) and one
                    // nanosecond later, under the comparison operators
                    if let Ok(b) = DateTime::from_timespec_and_local(d.unix_time(), d.nanoseconds(), *d.local_time_type()) {
                        o.push_str(" rt=");
                        canon::dt(&mut o, &b);
                        canon::rel(&mut o, &d, &b);
                        canon::rel(&mut o, &b, &d);
                    }
                    if let Ok(b) = DateTime::from_total_nanoseconds_and_local(d.total_nanoseconds().saturating_add(1), *d.local_time_type()) {
                        canon::rel(&mut o, &d, &b);
                    }
                    let _ = d.project(TimeZoneRef::utc());
                }
                Err(e) => canon::anyerr(&mut o, e),
            }
        }
        "utc_ts" => {
            match UtcDateTime::from_timespec(a(args, 0), a(args, 1) as u32) {
                Ok(u) => canon::utc(&mut o, &u),
                Err(e) => canon::anyerr(&mut o, e),
            }
            let total = a(args, 0) as i128 * 1_000_000_000 + a(args, 1) as i128;
            match UtcDateTime::from_total_nanoseconds(total) {
                Ok(u) => canon::utc(&mut o, &u),
                Err(e) => canon::anyerr(&mut o, e),
            }
        }
        "utc_total" => {
            let total = (a(args, 0) as i128).wrapping_mul(a(args, 1) as i128).wrapping_add(a(args, 2) as i128);
            let l = LocalTimeType::with_ut_offset(a(args, 3) as i32).unwrap_or(LocalTimeType::utc());
            // second total: a seconds count whose low 64 bits alone look like a supported time while the
            // whole does not fit in 64 bits (a narrowing conversion that only watches the sign lets it through)
            let hi = (a(args, 0) as i128 % 1024) << 64;
            let total2 = (hi + a(args, 2) as i128 % 60_000_000_000_000_000).wrapping_mul(1_000_000_000).wrapping_add(a(args, 1) as i128 % 1_000_000_000);
            for total in [total, total2] {
                // an accepted total must be the total of the value handed back: anything else is an
                // out-of-range input that was not refused (C07: invalid input yields an error value)
                match UtcDateTime::from_total_nanoseconds(total) {
                    Ok(u) => {
                        canon::utc(&mut o, &u);
                        if u.total_nanoseconds() != total {
                            let _ = write!(o, " C07VALUE[UtcDateTime::from_total_nanoseconds({total}) accepted as total {}]", u.total_nanoseconds());
                        }
                    }
                    Err(e) => canon::anyerr(&mut o, e),
                }
                match DateTime::from_total_nanoseconds_and_local(total, l) {
                    Ok(d) => {
                        canon::dt(&mut o, &d);
                        if d.total_nanoseconds() != total {
                            let _ = write!(o, " C07VALUE[DateTime::from_total_nanoseconds_and_local({total}) accepted as total {}]", d.total_nanoseconds());
                        }
                    }
                    Err(e) => canon::anyerr(&mut o, e),
                }
            }
        }
        "dt_ts_local" => {
            let l = LocalTimeType::with_ut_offset(a(args, 2) as i32).unwrap_or(LocalTimeType::utc());
            match DateTime::from_timespec_and_local(a(args, 0), a(args, 1) as u32, l) {
                Ok(d) => canon::dt(&mut o, &d),
                Err(e) => canon::anyerr(&mut o, e),
            }
        }
        "mwd" => {
            let _ = write!(o, "{:?}", MonthWeekDay::new(a(args, 0) as u8, a(args, 1) as u8, a(args, 2) as u8).map(|m| (m.month(), m.week(), m.week_day())));
        }
        "j1" => {
            let _ = write!(o, "{:?}", Julian1WithoutLeap::new(a(args, 0) as u16).map(|j| j.get()));
        }
        "j0" => {
            let _ = write!(o, "{:?}", Julian0WithLeap::new(a(args, 0) as u16).map(|j| j.get()));
        }
        "alt" => {
            let std = LocalTimeType::new(a(args, 0) as i32, false, Some(b"STD"));
            let dst = LocalTimeType::new(a(args, 1) as i32, true, Some(b"DST"));
            let s = day(a(args, 2), a(args, 3), a(args, 4), a(args, 5));
            let e = day(a(args, 7), a(args, 8), a(args, 9), a(args, 10));
            match (std, dst, s, e) {
                (Ok(std), Ok(dst), Ok(s), Ok(e)) => match AlternateTime::new(std, dst, s, a(args, 6) as i32, e, a(args, 11) as i32) {
                    Ok(alt) => {
                        let rule = Some(TransitionRule::Alternate(alt));
                        canon::rule(&mut o, &rule);
                        let types = [std, dst];
                        if let Ok(z) = TimeZoneRef::new(&[], &types, &[], &rule) {
                            for t in args.iter().skip(12) {
                                match z.find_local_time_type(*t) {
                                    Ok(l) => canon::ltt(&mut o, l),
                                    Err(e) => canon::anyerr(&mut o, e),
                                }
                                if let Ok(d) = DateTime::from_timespec(*t, 0, z) {
                                    match kfound(d.year(), d.month(), d.month_day(), d.hour(), d.minute(), d.second(), z) {
                                        Ok(l) => {
                                            let _ = write!(o, "k={}", l);
                                        }
                                        Err(e) => canon::anyerr(&mut o, e),
                                    }
                                }
                            }
                            // extreme years through the search
                            for y in [i32::MIN, i32::MIN + 1, i32::MIN + 2, i32::MAX - 2, i32::MAX - 1, i32::MAX] {
                                match kfound(y, 1 + (a(args, 3).unsigned_abs() % 12) as u8, 1, 0, 0, 0, z) {
                                    Ok(l) => {
                                        let _ = write!(o, "y{}", l);
                                    }
                                    Err(_) => o.push('E'),
                                }
                            }
                        }
                    }
                    Err(e) => {
                        canon::anyerr(&mut o, e);
                    }
                },
                _ => o.push_str("Err(parts)"),
            }
        }
        "tzref" => {
            // args: nt, nl, rulecode, then nt*(time, idx), then nl*(time, corr), then probe times
            let nt = (a(args, 0).unsigned_abs() % 6) as usize;
            let nl = (a(args, 1).unsigned_abs() % 4) as usize;
            let types = [LocalTimeType::utc(), LocalTimeType::with_ut_offset(3600).unwrap(), LocalTimeType::new(-7200, true, Some(b"XYZ")).unwrap()];
            let mut tr = Vec::new();
            let mut p = 3;
            for _ in 0..nt {
                tr.push(Transition::new(a(args, p), a(args, p + 1).unsigned_abs() as usize % 4));
                p += 2;
            }
            let mut lp = Vec::new();
            for _ in 0..nl {
                lp.push(LeapSecond::new(a(args, p), a(args, p + 1) as i32));
                p += 2;
            }
            let rule = match a(args, 2).rem_euclid(3) {
                0 => None,
                1 => Some(TransitionRule::Fixed(types[(a(args, 2).unsigned_abs() / 3 % 3) as usize])),
                _ => AlternateTime::new(types[0], types[1], RuleDay::MonthWeekDay(MonthWeekDay::new(3, 5, 0).unwrap()), 7200, RuleDay::MonthWeekDay(MonthWeekDay::new(10, 5, 0).unwrap()), 10800).ok().map(TransitionRule::Alternate),
            };
            match TimeZoneRef::new(&tr, &types, &lp, &rule) {
                Ok(z) => {
                    canon::zone(&mut o, z);
                    #[cfg(feature = "tz-alloc")]
                    {
                        // the owned constructor must agree with the borrowed one (not part of the canonical result)
                        let owned = TimeZone::new(tr.clone(), types.to_vec(), lp.clone(), rule);
                        assert!(owned.is_ok(), "TimeZone::new refuses what TimeZoneRef::new accepts");
                    }
                    for t in args.iter().skip(p) {
                        match z.find_local_time_type(*t) {
                            Ok(l) => canon::ltt(&mut o, l),
                            Err(e) => canon::anyerr(&mut o, e),
                        }
                        match DateTime::from_timespec(*t, 0, z) {
                            Ok(d) => {
                                let _ = write!(o, "{d}");
                                match kfound(d.year(), d.month(), d.month_day(), d.hour(), d.minute(), d.second(), z) {
                                    Ok(l) => {
                                        let _ = write!(o, "k={}", l);
                                    }
                                    Err(e) => canon::anyerr(&mut o, e),
                                }
                            }
                            Err(e) => canon::anyerr(&mut o, e),
                        }
                    }
                }
                Err(e) => canon::anyerr(&mut o, e),
            }
        }
        "tzref_many" => {
            // a borrowed zone with more local time types than a TZif file can index (> 256)
            let ntypes = 257 + (a(args, 0).unsigned_abs() % 200) as usize;
            let types: Vec<LocalTimeType> = (0..ntypes).map(|i| LocalTimeType::with_ut_offset((i as i32 % 97) * 900 - 43200).unwrap()).collect();
            let nt = 2 + (a(args, 1).unsigned_abs() % 6) as usize;
            let mut tr = Vec::new();
            let mut t = a(args, 2) % 4_000_000_000;
            for k in 0..nt {
                let idx = if k % 2 == 0 { ntypes - 1 - (a(args, 3 + k).unsigned_abs() as usize % 100) } else { a(args, 3 + k).unsigned_abs() as usize % ntypes };
                tr.push(Transition::new(t, idx));
                t = t.saturating_add(1 + a(args, 3 + k).unsigned_abs() as i64 % 100_000);
            }
            match TimeZoneRef::new(&tr, &types, &[], &None) {
                Ok(z) => {
                    for x in &tr {
                        for dt in [-1i64, 0, 1] {
                            let tt = x.unix_leap_time().saturating_add(dt);
                            match z.find_local_time_type(tt) {
                                Ok(l) => canon::ltt(&mut o, l),
                                Err(e) => canon::anyerr(&mut o, e),
                            }
                            if let Ok(d) = DateTime::from_timespec(tt, 0, z) {
                                match kfound(d.year(), d.month(), d.month_day(), d.hour(), d.minute(), d.second(), z) {
                                    Ok(k) => {
                                        let _ = write!(o, "k={k}");
                                    }
                                    Err(e) => canon::anyerr(&mut o, e),
                                }
                            }
                        }
                    }
                }
                Err(e) => canon::anyerr(&mut o, e),
            }
        }
        "project_x" => {
            // projection between two fixed zones with arbitrary (also extreme) offsets
            let l1 = LocalTimeType::with_ut_offset(a(args, 2) as i32).unwrap_or(LocalTimeType::utc());
            let l2 = [LocalTimeType::with_ut_offset(a(args, 3) as i32).unwrap_or(LocalTimeType::utc())];
            match DateTime::from_timespec_and_local(a(args, 0), a(args, 1).unsigned_abs() as u32 % 1_000_000_000, l1) {
                Ok(d) => {
                    canon::dt(&mut o, &d);
                    if let Ok(z2) = TimeZoneRef::new(&[], &l2, &[], &None) {
                        match d.project(z2) {
                            Ok(p) => canon::dt(&mut o, &p),
                            Err(e) => canon::anyerr(&mut o, e),
                        }
                    }
                }
                Err(e) => canon::anyerr(&mut o, e),
            }
        }
        #[cfg(feature = "tz-alloc")]
        "tzstr" => {
            let bytes: Vec<u8> = args.iter().map(|x| *x as u8).collect();
            let s = String::from_utf8_lossy(&bytes).into_owned();
            match TimeZoneSettings::new(&[], empty_read).parse_posix_tz(&s) {
                Ok(z) => canon::zone(&mut o, z.as_ref()),
                Err(e) => canon::err(&mut o, &e),
            }
        }
        #[cfg(feature = "tz-std")]
        "ambient_local" => {
            // real filesystem, not part of the seeded search
            let a1 = TimeZone::local();
            let a2 = TimeZoneSettings::new(TimeZoneSettings::DEFAULT_DIRECTORIES, TimeZoneSettings::DEFAULT_READ_FILE_FN).parse_local();
            let same = match (&a1, &a2) {
                (Ok(x), Ok(y)) => x == y,
                (Err(_), Err(_)) => true,
                _ => false,
            };
            let _ = write!(o, "ambient_same={same} ok={}", a1.is_ok());
        }
        _ => o.push_str("skip(unknown construct kind)"),
    }
    o
}
