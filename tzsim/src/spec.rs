//! Zone specs (what the simulated installer intends to install), their explicit text
//! form, the harness's own POSIX-TZ printer, the independent TZif writer
//! (spec -> RawFile) and the by-construction expectation (spec -> tz-rs values built
//! only through public constructors, never through tz-rs's parsers).

use crate::tzif::{RawBlock, RawFile, RawSecond};
use tz::timezone::{AlternateTime, Julian0WithLeap, Julian1WithoutLeap, LeapSecond, LocalTimeType, MonthWeekDay, RuleDay, Transition, TransitionRule};
#[cfg(feature = "tz-alloc")]
use tz::timezone::TimeZone;

// ---------------------------------------------------------------- escaping

fn plain(b: u8) -> bool {
    b.is_ascii_alphanumeric() || matches!(b, b'_' | b'.' | b'/' | b'+' | b'-' | b'<' | b'>')
}

pub fn esc(bytes: &[u8]) -> String {
    let mut s = String::new();
    for &b in bytes {
        if plain(b) {
            s.push(b as char);
        } else {
            s.push_str(&format!("\\x{:02X}", b));
        }
    }
    s
}

pub fn unesc(s: &str) -> Result<Vec<u8>, String> {
    let b = s.as_bytes();
    let mut out = Vec::new();
    let mut i = 0;
    while i < b.len() {
        if b[i] == b'\\' {
            if i + 3 < b.len() + 0 && b[i + 1] == b'x' {
                let h = std::str::from_utf8(&b[i + 2..i + 4]).map_err(|e| e.to_string())?;
                out.push(u8::from_str_radix(h, 16).map_err(|e| e.to_string())?);
                i += 4;
            } else {
                return Err(format!("bad escape in {s:?}"));
            }
        } else {
            out.push(b[i]);
            i += 1;
        }
    }
    Ok(out)
}

pub fn unesc_str(s: &str) -> Result<String, String> {
    String::from_utf8(unesc(s)?).map_err(|e| e.to_string())
}

// ---------------------------------------------------------------- rule specs

#[derive(Clone, Debug, PartialEq, Eq)]
pub enum DaySpec {
    /// Jn, 1..=365
    J1(u16),
    /// n, 0..=365
    J0(u16),
    /// Mm.w.d
    M(u8, u8, u8),
}

#[derive(Clone, Debug, PartialEq, Eq)]
pub enum RuleSpec {
    Fixed { off: i32, desig: Vec<u8> },
    Alt { std_off: i32, std_desig: Vec<u8>, dst_off: i32, dst_desig: Vec<u8>, start: DaySpec, start_time: i32, end: DaySpec, end_time: i32 },
}

/// printer style bits
pub const ST_OMIT_DEFAULT_TIME: u8 = 1;
pub const ST_OMIT_DEFAULT_DST: u8 = 2;
pub const ST_PLUS: u8 = 4;
pub const ST_PAD: u8 = 8;
pub const ST_QUOTE: u8 = 16;
/// rule times carry an explicit sign ("/+2"): syntax of the RFC 8536 extension only
pub const ST_TIME_SIGN: u8 = 32;
/// with ST_TIME_SIGN: a zero rule time is written "-0" instead of "+0"
pub const ST_NEG_ZERO: u8 = 64;

impl DaySpec {
    pub fn text(&self) -> String {
        match self {
            DaySpec::J1(n) => format!("J{n}"),
            DaySpec::J0(n) => format!("{n}"),
            DaySpec::M(m, w, d) => format!("M{m}.{w}.{d}"),
        }
    }

    pub fn parse(s: &str) -> Result<Self, String> {
        if let Some(r) = s.strip_prefix('J') {
            return Ok(DaySpec::J1(r.parse().map_err(|_| format!("bad day {s}"))?));
        }
        if let Some(r) = s.strip_prefix('M') {
            let p: Vec<&str> = r.split('.').collect();
            if p.len() != 3 {
                return Err(format!("bad day {s}"));
            }
            let f = |x: &str| x.parse::<u8>().map_err(|_| format!("bad day {s}"));
            return Ok(DaySpec::M(f(p[0])?, f(p[1])?, f(p[2])?));
        }
        Ok(DaySpec::J0(s.parse().map_err(|_| format!("bad day {s}"))?))
    }

    fn build(&self) -> Option<RuleDay> {
        Some(match self {
            DaySpec::J1(n) => RuleDay::Julian1WithoutLeap(Julian1WithoutLeap::new(*n).ok()?),
            DaySpec::J0(n) => RuleDay::Julian0WithLeap(Julian0WithLeap::new(*n).ok()?),
            DaySpec::M(m, w, d) => RuleDay::MonthWeekDay(MonthWeekDay::new(*m, *w, *d).ok()?),
        })
    }
}

fn hms(v: i64, style: u8, force_sign: bool) -> String {
    let neg = v < 0;
    let a = v.unsigned_abs();
    let (h, m, s) = (a / 3600, (a / 60) % 60, a % 60);
    let mut out = String::new();
    if neg {
        out.push('-');
    } else if force_sign {
        out.push('+');
    }
    if style & ST_PAD != 0 {
        out.push_str(&format!("{h:02}"));
    } else {
        out.push_str(&format!("{h}"));
    }
    if m != 0 || s != 0 || style & ST_PAD != 0 {
        out.push_str(&format!(":{m:02}"));
        if s != 0 {
            out.push_str(&format!(":{s:02}"));
        }
    }
    out
}

fn name(d: &[u8], style: u8) -> String {
    let s = String::from_utf8_lossy(d).into_owned();
    if style & ST_QUOTE == 0 && !d.is_empty() && d.iter().all(|b| b.is_ascii_alphabetic()) {
        s
    } else {
        format!("<{s}>")
    }
}

impl RuleSpec {
    /// Render as a POSIX TZ string (with RFC 8536 extensions if a time needs them).
    pub fn print(&self, style: u8) -> String {
        match self {
            RuleSpec::Fixed { off, desig } => format!("{}{}", name(desig, style), hms(-(*off as i64), style, style & ST_PLUS != 0)),
            RuleSpec::Alt { std_off, std_desig, dst_off, dst_desig, start, start_time, end, end_time } => {
                let mut s = format!("{}{}", name(std_desig, style), hms(-(*std_off as i64), style, style & ST_PLUS != 0));
                s.push_str(&name(dst_desig, style));
                let default_dst = *dst_off as i64 == *std_off as i64 + 3600;
                if !(default_dst && style & ST_OMIT_DEFAULT_DST != 0) {
                    s.push_str(&hms(-(*dst_off as i64), style, false));
                }
                for (d, t) in [(start, start_time), (end, end_time)] {
                    s.push(',');
                    s.push_str(&d.text());
                    if !(*t == 7200 && style & ST_OMIT_DEFAULT_TIME != 0) {
                        s.push('/');
                        if style & ST_TIME_SIGN != 0 && *t == 0 && style & ST_NEG_ZERO != 0 {
                            s.push('-');
                            s.push_str(&hms(0, style & !ST_PAD, false));
                        } else {
                            s.push_str(&hms(*t as i64, style & !ST_PAD, style & ST_TIME_SIGN != 0));
                        }
                    }
                }
                s
            }
        }
    }

    /// True if the rendered string needs the RFC 8536 (v3) extensions: a transition
    /// time outside 0..=24:59:59 (the hour field of the plain grammar is 0..=24).
    pub fn needs_extensions(&self) -> bool {
        match self {
            RuleSpec::Fixed { .. } => false,
            RuleSpec::Alt { start_time, end_time, .. } => {
                let bad = |t: i32| t < 0 || t > 24 * 3600 + 59 * 60 + 59;
                bad(*start_time) || bad(*end_time)
            }
        }
    }

    /// True if the string rendered with `style` needs the extensions: by value, or because a rule
    /// time is written with an explicit sign (which the plain grammar does not have).
    pub fn needs_extensions_styled(&self, style: u8) -> bool {
        if self.needs_extensions() {
            return true;
        }
        match self {
            RuleSpec::Fixed { .. } => false,
            RuleSpec::Alt { start_time, end_time, .. } => style & ST_TIME_SIGN != 0 && [start_time, end_time].iter().any(|t| !(**t == 7200 && style & ST_OMIT_DEFAULT_TIME != 0)),
        }
    }

    /// True if the rendered string is inside the grammar at all (times within +-167h,
    /// offsets within +-24:59:59), independent of tz-rs.
    pub fn printable(&self) -> bool {
        let okoff = |o: i32| (o as i64).abs() <= 24 * 3600 + 59 * 60 + 59;
        match self {
            RuleSpec::Fixed { off, .. } => okoff(*off),
            RuleSpec::Alt { std_off, dst_off, start_time, end_time, .. } => {
                let okt = |t: i32| (t as i64).abs() <= 167 * 3600 + 59 * 60 + 59;
                okoff(*std_off) && okoff(*dst_off) && okt(*start_time) && okt(*end_time)
            }
        }
    }

    /// Build the tz-rs rule through public constructors only. None = some constructor refused
    /// (or panicked: the executor will meet the same panic inside a measured call and report it).
    pub fn build(&self) -> Option<TransitionRule> {
        std::panic::catch_unwind(|| self.build_inner()).unwrap_or(None)
    }

    /// Do the parts (local time types, rule days, times within +-167:59:59) pass their own public constructors?
    pub fn parts_build(&self) -> bool {
        std::panic::catch_unwind(|| match self {
            RuleSpec::Fixed { off, desig } => LocalTimeType::new(*off, false, Some(desig)).is_ok(),
            RuleSpec::Alt { std_off, std_desig, dst_off, dst_desig, start, start_time, end, end_time } => {
                let okt = |t: i32| (t as i64).abs() <= 167 * 3600 + 59 * 60 + 59;
                LocalTimeType::new(*std_off, false, Some(std_desig)).is_ok() && LocalTimeType::new(*dst_off, true, Some(dst_desig)).is_ok() && start.build().is_some() && end.build().is_some() && okt(*start_time) && okt(*end_time)
            }
        })
        .unwrap_or(false)
    }

    fn build_inner(&self) -> Option<TransitionRule> {
        match self {
            RuleSpec::Fixed { off, desig } => Some(TransitionRule::Fixed(LocalTimeType::new(*off, false, Some(desig)).ok()?)),
            RuleSpec::Alt { std_off, std_desig, dst_off, dst_desig, start, start_time, end, end_time } => {
                let std = LocalTimeType::new(*std_off, false, Some(std_desig)).ok()?;
                let dst = LocalTimeType::new(*dst_off, true, Some(dst_desig)).ok()?;
                Some(TransitionRule::Alternate(AlternateTime::new(std, dst, start.build()?, *start_time, end.build()?, *end_time).ok()?))
            }
        }
    }

    pub fn text(&self) -> String {
        match self {
            RuleSpec::Fixed { off, desig } => format!("fixed:{off}:{}", esc(desig)),
            RuleSpec::Alt { std_off, std_desig, dst_off, dst_desig, start, start_time, end, end_time } => {
                format!("alt:{std_off}:{}:{dst_off}:{}:{}:{start_time}:{}:{end_time}", esc(std_desig), esc(dst_desig), start.text(), end.text())
            }
        }
    }

    pub fn parse(s: &str) -> Result<Self, String> {
        let p: Vec<&str> = s.split(':').collect();
        let num = |x: &str| x.parse::<i32>().map_err(|_| format!("bad number {x} in rule {s}"));
        match p[0] {
            "fixed" if p.len() == 3 => Ok(RuleSpec::Fixed { off: num(p[1])?, desig: unesc(p[2])? }),
            "alt" if p.len() == 9 => Ok(RuleSpec::Alt {
                std_off: num(p[1])?,
                std_desig: unesc(p[2])?,
                dst_off: num(p[3])?,
                dst_desig: unesc(p[4])?,
                start: DaySpec::parse(p[5])?,
                start_time: num(p[6])?,
                end: DaySpec::parse(p[7])?,
                end_time: num(p[8])?,
            }),
            _ => Err(format!("bad rule spec {s}")),
        }
    }
}

// ---------------------------------------------------------------- zone specs

#[derive(Clone, Debug, PartialEq, Eq)]
pub struct TypeSpec {
    pub off: i32,
    pub dst: bool,
    pub desig: Vec<u8>,
    pub isstd: bool,
    pub isut: bool,
}

#[derive(Clone, Debug, PartialEq, Eq)]
pub struct ZoneSpec {
    pub version: u8,
    pub types: Vec<TypeSpec>,
    pub trans: Vec<(i64, u8)>,
    pub leaps: Vec<(i64, i32)>,
    pub rule: Option<RuleSpec>,
    pub rule_style: u8,
    /// bit0: 0 = one string per distinct designation, 1 = share suffixes inside the string table;
    /// bit1: 66 000 unused bytes follow the strings (character count beyond 16 bits);
    /// bit2: 37 unused bytes precede the strings (no designation starts at index 0)
    pub desig_mode: u8,
    /// bit0 write the isstd vector, bit1 write the isut vector
    pub indicators: u8,
    /// 0 = v1 block is the faithful 32-bit projection; otherwise seed of an unrelated decoy block
    pub decoy: u64,
}

impl ZoneSpec {
    pub fn text(&self) -> String {
        let types: Vec<String> = self.types.iter().map(|t| format!("{}:{}:{}:{}:{}", t.off, t.dst as u8, esc(&t.desig), t.isstd as u8, t.isut as u8)).collect();
        let trans: Vec<String> = self.trans.iter().map(|(t, i)| format!("{t}:{i}")).collect();
        let leaps: Vec<String> = self.leaps.iter().map(|(t, c)| format!("{t}:{c}")).collect();
        format!(
            "v={} types={} trans={} leaps={} rule={} style={} desig={} ind={} decoy={}",
            self.version,
            types.join(","),
            trans.join(","),
            leaps.join(","),
            self.rule.as_ref().map(|r| r.text()).unwrap_or_else(|| "none".into()),
            self.rule_style,
            self.desig_mode,
            self.indicators,
            self.decoy
        )
    }

    pub fn parse(tokens: &[&str]) -> Result<Self, String> {
        let mut z = ZoneSpec { version: 2, types: vec![], trans: vec![], leaps: vec![], rule: None, rule_style: 0, desig_mode: 0, indicators: 0, decoy: 0 };
        for tok in tokens {
            let (k, v) = tok.split_once('=').ok_or_else(|| format!("bad token {tok}"))?;
            let bad = || format!("bad value in {tok}");
            match k {
                "v" => z.version = v.parse().map_err(|_| bad())?,
                "types" => {
                    for t in v.split(',').filter(|x| !x.is_empty()) {
                        let p: Vec<&str> = t.split(':').collect();
                        if p.len() != 5 {
                            return Err(bad());
                        }
                        z.types.push(TypeSpec { off: p[0].parse().map_err(|_| bad())?, dst: p[1] == "1", desig: unesc(p[2])?, isstd: p[3] == "1", isut: p[4] == "1" });
                    }
                }
                "trans" => {
                    for t in v.split(',').filter(|x| !x.is_empty()) {
                        let (a, b) = t.split_once(':').ok_or_else(bad)?;
                        z.trans.push((a.parse().map_err(|_| bad())?, b.parse().map_err(|_| bad())?));
                    }
                }
                "leaps" => {
                    for t in v.split(',').filter(|x| !x.is_empty()) {
                        let (a, b) = t.split_once(':').ok_or_else(bad)?;
                        z.leaps.push((a.parse().map_err(|_| bad())?, b.parse().map_err(|_| bad())?));
                    }
                }
                "rule" => z.rule = if v == "none" { None } else { Some(RuleSpec::parse(v)?) },
                "style" => z.rule_style = v.parse().map_err(|_| bad())?,
                "desig" => z.desig_mode = v.parse().map_err(|_| bad())?,
                "ind" => z.indicators = v.parse().map_err(|_| bad())?,
                "decoy" => z.decoy = v.parse().map_err(|_| bad())?,
                _ => return Err(format!("unknown zone spec key {k}")),
            }
        }
        Ok(z)
    }

    /// Is this spec representable as a well-formed file of its version at all?
    /// (writer-side precondition, independent of tz-rs)
    pub fn representable(&self) -> bool {
        if self.types.is_empty() || self.types.len() > 256 {
            return false;
        }
        if self.version == 1 {
            if self.rule.is_some() {
                return false;
            }
            let fits = |t: i64| t >= i32::MIN as i64 && t <= i32::MAX as i64;
            if !self.trans.iter().all(|(t, _)| fits(*t)) || !self.leaps.iter().all(|(t, _)| fits(*t)) {
                return false;
            }
        }
        if let Some(r) = &self.rule {
            if !r.printable() {
                return false;
            }
        }
        self.string_table().is_some()
    }

    /// Build the designation string table and the per-type index.
    fn string_table(&self) -> Option<(Vec<u8>, Vec<u8>)> {
        let mut chars: Vec<u8> = Vec::new();
        let mut index = Vec::new();
        if self.desig_mode & 4 != 0 {
            // unused strings in front (never equal to a designation: they contain '_')
            chars.extend_from_slice(b"_unused_\0__\0_front_padding_of_table_\0");
            chars.truncate(36);
            chars.push(0);
        }
        let lead = chars.len();
        for t in &self.types {
            if t.desig.contains(&0) {
                return None;
            }
            let mut needle = t.desig.clone();
            needle.push(0);
            let found = if self.desig_mode & 1 == 1 {
                // any position where desig+NUL occurs (suffix sharing)
                chars.windows(needle.len()).position(|w| w == &needle[..])
            } else {
                // only at the start of a previously placed string
                let mut pos = None;
                let mut start = lead;
                while start < chars.len() {
                    let end = start + chars[start..].iter().position(|&c| c == 0).unwrap();
                    if chars[start..end] == t.desig[..] {
                        pos = Some(start);
                        break;
                    }
                    start = end + 1;
                }
                pos
            };
            let i = match found {
                Some(i) => i,
                None => {
                    let i = chars.len();
                    chars.extend_from_slice(&needle);
                    i
                }
            };
            if i > 255 {
                return None;
            }
            index.push(i as u8);
        }
        if self.desig_mode & 2 != 0 {
            for k in 0..66_000u32 {
                chars.push(if k % 9 == 8 { 0 } else { b'a' + (k % 23) as u8 });
            }
            chars.push(0);
        }
        Some((chars, index))
    }

    fn block(&self, time_size: usize, trans: &[(i64, u8)], leaps: &[(i64, i32)]) -> Option<RawBlock> {
        let (chars, index) = self.string_table()?;
        let mut b = RawBlock::default();
        for (t, i) in trans {
            if time_size == 4 {
                b.times.extend_from_slice(&(*t as i32).to_be_bytes());
            } else {
                b.times.extend_from_slice(&t.to_be_bytes());
            }
            b.idx.push(*i);
        }
        for (k, t) in self.types.iter().enumerate() {
            b.ttinfo.extend_from_slice(&t.off.to_be_bytes());
            b.ttinfo.push(t.dst as u8);
            b.ttinfo.push(index[k]);
        }
        b.chars = chars;
        for (t, c) in leaps {
            if time_size == 4 {
                b.leaps.extend_from_slice(&(*t as i32).to_be_bytes());
            } else {
                b.leaps.extend_from_slice(&t.to_be_bytes());
            }
            b.leaps.extend_from_slice(&c.to_be_bytes());
        }
        if self.indicators & 1 != 0 {
            b.isstd = self.types.iter().map(|t| t.isstd as u8).collect();
        }
        if self.indicators & 2 != 0 {
            b.isut = self.types.iter().map(|t| t.isut as u8).collect();
        }
        b.isutcnt = b.isut.len() as u32;
        b.isstdcnt = b.isstd.len() as u32;
        b.leapcnt = leaps.len() as u32;
        b.timecnt = trans.len() as u32;
        b.typecnt = self.types.len() as u32;
        b.charcnt = b.chars.len() as u32;
        Some(b)
    }

    /// Footer bytes of a v2+ file.
    pub fn footer(&self) -> Vec<u8> {
        let mut f = vec![b'\n'];
        if let Some(r) = &self.rule {
            f.extend_from_slice(r.print(self.rule_style).as_bytes());
        }
        f.push(b'\n');
        f
    }

    /// The independent writer. None if not representable.
    pub fn write(&self) -> Option<RawFile> {
        if !self.representable() {
            return None;
        }
        let vbyte = match self.version {
            1 => 0u8,
            2 => b'2',
            3 => b'3',
            _ => return None,
        };
        if self.version == 1 {
            let b1 = self.block(4, &self.trans, &self.leaps)?;
            return Some(RawFile { magic1: *b"TZif", version1: 0, reserved1: [0; 15], b1, second: None, trailing: vec![] });
        }
        let b2 = self.block(8, &self.trans, &self.leaps)?;
        let b1 = if self.decoy == 0 {
            let fits = |t: i64| t >= i32::MIN as i64 && t <= i32::MAX as i64;
            let tr: Vec<(i64, u8)> = self.trans.iter().copied().filter(|(t, _)| fits(*t)).collect();
            let lp: Vec<(i64, i32)> = self.leaps.iter().copied().filter(|(t, _)| fits(*t)).collect();
            self.block(4, &tr, &lp)?
        } else {
            decoy_block(self.decoy)
        };
        Some(RawFile { magic1: *b"TZif", version1: vbyte, reserved1: [0; 15], b1, second: Some(RawSecond { magic2: *b"TZif", version2: vbyte, reserved2: [0; 15], b2, footer: self.footer() }), trailing: vec![] })
    }

    pub fn bytes(&self) -> Option<Vec<u8>> {
        self.write().map(|f| crate::tzif::serialize(&f))
    }

    /// By-construction expectation: the zone this spec encodes, built through public
    /// constructors. `Err(())` = some constructor refuses => decoding must refuse too.
    #[cfg(feature = "tz-alloc")]
    pub fn expected(&self) -> Result<TimeZone, ()> {
        // a panic of the library here is not the harness's to report: the executor decodes the same
        // bytes inside a measured call and reports it there
        std::panic::catch_unwind(|| {
            let p = self.parts()?;
            TimeZone::new(p.trans, p.types, p.leaps, p.rule).map_err(|_| ())
        })
        .unwrap_or(Err(()))
    }

    /// Would the public constructors accept this spec? (allocation-free API only, so the
    /// generator takes the same decisions in every feature configuration)
    pub fn valid(&self) -> bool {
        // if the library panics on this spec, keep the spec as it is ("valid") so that the executor
        // runs into the same panic inside a measured call
        std::panic::catch_unwind(|| match self.parts() {
            Ok(p) => tz::timezone::TimeZoneRef::new(&p.trans, &p.types, &p.leaps, &p.rule).is_ok(),
            Err(()) => false,
        })
        .unwrap_or(true)
    }

    /// The parts of the zone this spec encodes, built through the allocation-free public
    /// constructors (usable in every feature configuration).
    pub fn parts(&self) -> Result<Parts, ()> {
        let mut types = Vec::new();
        for t in &self.types {
            let d = if t.desig.is_empty() { None } else { Some(&t.desig[..]) };
            types.push(LocalTimeType::new(t.off, t.dst, d).map_err(|_| ())?);
        }
        // indicator pairs: (isstd=0, isut=1) is not a legal combination
        for t in &self.types {
            let isstd = self.indicators & 1 != 0 && t.isstd;
            let isut = self.indicators & 2 != 0 && t.isut;
            if isut && !isstd {
                return Err(());
            }
        }
        let trans: Vec<Transition> = self.trans.iter().map(|(t, i)| Transition::new(*t, *i as usize)).collect();
        let leaps: Vec<LeapSecond> = self.leaps.iter().map(|(t, c)| LeapSecond::new(*t, *c)).collect();
        let rule = match (&self.rule, self.version) {
            (None, _) => None,
            (Some(_), 1) => None,
            (Some(r), v) => {
                if r.needs_extensions_styled(self.rule_style) && v < 3 {
                    return Err(());
                }
                Some(r.build().ok_or(())?)
            }
        };
        Ok(Parts { trans, types, leaps, rule })
    }
}

/// Harness-owned parts of a zone (for `TimeZoneRef::new` over slices).
pub struct Parts {
    pub trans: Vec<Transition>,
    pub types: Vec<LocalTimeType>,
    pub leaps: Vec<LeapSecond>,
    pub rule: Option<TransitionRule>,
}

/// A structurally valid but unrelated v1 block (the reader must not look at it).
fn decoy_block(seed: u64) -> RawBlock {
    if seed % 5 == 1 {
        // what `zic -b slim` writes: the smallest legal 32-bit block (one type, one NUL, nothing else)
        return RawBlock { typecnt: 1, charcnt: 1, ttinfo: vec![0, 0, 0, 0, 0, 0], chars: vec![0], ..Default::default() };
    }
    let mut r = crate::prng::Rng::new(seed);
    let typecnt = 1 + r.below(5) as u32;
    let timecnt = r.below(9) as u32;
    let leapcnt = r.below(3) as u32;
    let charcnt = 1 + r.below(12) as u32;
    let mut b = RawBlock { typecnt, timecnt, leapcnt, charcnt, ..Default::default() };
    b.isstdcnt = if r.chance(1, 2) { typecnt } else { 0 };
    b.isutcnt = if r.chance(1, 2) { typecnt } else { 0 };
    let mut t = -(r.below(1 << 30) as i64);
    for _ in 0..timecnt {
        t += 1 + r.below(1 << 24) as i64;
        b.times.extend_from_slice(&(t as i32).to_be_bytes());
        b.idx.push(r.below(typecnt as u64) as u8);
    }
    for _ in 0..typecnt {
        b.ttinfo.extend_from_slice(&((r.range(-50000, 50000)) as i32).to_be_bytes());
        b.ttinfo.push(r.below(2) as u8);
        b.ttinfo.push(r.below(charcnt as u64) as u8);
    }
    for i in 0..charcnt {
        b.chars.push(if i + 1 == charcnt || r.chance(1, 4) { 0 } else { b'A' + r.below(26) as u8 });
    }
    if seed % 7 == 3 && charcnt >= 6 {
        // a magic-like byte sequence inside the ignored block
        b.chars[..5].copy_from_slice(b"TZif2");
    }
    let mut lt = 0i64;
    for k in 0..leapcnt {
        lt += 3_000_000 + r.below(1 << 26) as i64;
        b.leaps.extend_from_slice(&(lt as i32).to_be_bytes());
        b.leaps.extend_from_slice(&((k as i32) + 1).to_be_bytes());
    }
    b.isstd = vec![0; b.isstdcnt as usize];
    b.isut = vec![0; b.isutcnt as usize];
    b
}

/// The zone of `Content::PingPong`: transitions at PINGPONG_T0 + i (i < n), types alternating.
pub const PINGPONG_T0: i64 = 1_000_000_000;

pub fn pingpong_spec(n: usize, d: i32) -> ZoneSpec {
    let n = n.min(400_000);
    ZoneSpec {
        version: 2,
        types: vec![TypeSpec { off: 0, dst: false, desig: b"PPA".to_vec(), isstd: false, isut: false }, TypeSpec { off: d, dst: true, desig: b"PPB".to_vec(), isstd: false, isut: false }],
        trans: (0..n).map(|i| (PINGPONG_T0 + i as i64, (1 - i % 2) as u8)).collect(),
        leaps: vec![],
        rule: None,
        rule_style: 0,
        desig_mode: 0,
        indicators: 0,
        decoy: 1,
    }
}
