//! Independent reader for the TZ strings found in the footers of *well-formed* TZif
//! files (IANA corpus). Used only to obtain an expectation for the footer rule of
//! real files; returns None for anything it does not understand, in which case the
//! oracle demands nothing about the rule.

use crate::spec::{DaySpec, RuleSpec};

struct P<'a> {
    b: &'a [u8],
    i: usize,
}

impl<'a> P<'a> {
    fn peek(&self) -> Option<u8> {
        self.b.get(self.i).copied()
    }
    fn eat(&mut self, c: u8) -> bool {
        if self.peek() == Some(c) {
            self.i += 1;
            true
        } else {
            false
        }
    }
    fn name(&mut self) -> Option<Vec<u8>> {
        if self.eat(b'<') {
            let start = self.i;
            while self.peek()? != b'>' {
                self.i += 1;
            }
            let n = self.b[start..self.i].to_vec();
            self.i += 1;
            Some(n)
        } else {
            let start = self.i;
            while self.peek().map_or(false, |c| c.is_ascii_alphabetic()) {
                self.i += 1;
            }
            if self.i - start < 3 {
                return None;
            }
            Some(self.b[start..self.i].to_vec())
        }
    }
    fn num(&mut self) -> Option<i64> {
        let start = self.i;
        while self.peek().map_or(false, |c| c.is_ascii_digit()) {
            self.i += 1;
        }
        if self.i == start || self.i - start > 4 {
            return None;
        }
        std::str::from_utf8(&self.b[start..self.i]).ok()?.parse().ok()
    }
    /// [+-]hh[:mm[:ss]] -> seconds
    fn hms(&mut self, allow_sign: bool) -> Option<i64> {
        let mut sign = 1;
        if allow_sign {
            if self.eat(b'-') {
                sign = -1;
            } else {
                self.eat(b'+');
            }
        }
        let h = self.num()?;
        let mut m = 0;
        let mut s = 0;
        if self.eat(b':') {
            m = self.num()?;
            if self.eat(b':') {
                s = self.num()?;
            }
        }
        if m > 59 || s > 59 {
            return None;
        }
        Some(sign * (h * 3600 + m * 60 + s))
    }
    fn day(&mut self) -> Option<DaySpec> {
        if self.eat(b'J') {
            return Some(DaySpec::J1(self.num()? as u16));
        }
        if self.eat(b'M') {
            let m = self.num()?;
            if !self.eat(b'.') {
                return None;
            }
            let w = self.num()?;
            if !self.eat(b'.') {
                return None;
            }
            let d = self.num()?;
            return Some(DaySpec::M(m as u8, w as u8, d as u8));
        }
        Some(DaySpec::J0(self.num()? as u16))
    }
}

/// Parse a footer TZ string. `extended` = version 3 rules (signed times up to 167h).
pub fn parse_tz(s: &[u8], extended: bool) -> Option<RuleSpec> {
    let mut p = P { b: s, i: 0 };
    let std_desig = p.name()?;
    let std_posix = p.hms(true)?;
    if std_posix.abs() > 24 * 3600 + 59 * 60 + 59 {
        return None;
    }
    if p.i == s.len() {
        return Some(RuleSpec::Fixed { off: -std_posix as i32, desig: std_desig });
    }
    let dst_desig = p.name()?;
    let dst_posix = match p.peek()? {
        b',' => std_posix - 3600,
        _ => p.hms(true)?,
    };
    let mut days = Vec::new();
    for _ in 0..2 {
        if !p.eat(b',') {
            return None;
        }
        let d = p.day()?;
        let t = if p.eat(b'/') {
            let t = p.hms(extended)?;
            let lim = if extended { 167 * 3600 + 59 * 60 + 59 } else { 24 * 3600 + 59 * 60 + 59 };
            if t.abs() > lim {
                return None;
            }
            t
        } else {
            7200
        };
        days.push((d, t));
    }
    if p.i != s.len() {
        return None;
    }
    let (end, end_time) = days.pop()?;
    let (start, start_time) = days.pop()?;
    Some(RuleSpec::Alt { std_off: -std_posix as i32, std_desig, dst_off: -dst_posix as i32, dst_desig, start, start_time: start_time as i32, end, end_time: end_time as i32 })
}
