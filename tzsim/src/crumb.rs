//! Breadcrumb file for crash containment: before each run the worker records
//! (without allocating) which scenario index it is about to execute, so the
//! orchestrator can attribute an abort / kill / hang to one scenario.

use std::fs::File;
use std::os::unix::fs::FileExt;
use std::sync::OnceLock;

static FILE: OnceLock<File> = OnceLock::new();

pub fn init(path: &str) {
    if let Ok(f) = std::fs::OpenOptions::new().create(true).write(true).truncate(true).open(path) {
        let _ = FILE.set(f);
    }
}

fn fmt_u64(mut v: u64, out: &mut [u8; 20]) {
    for i in (0..20).rev() {
        out[i] = b'0' + (v % 10) as u8;
        v /= 10;
    }
}

/// Record "about to run scenario `index`" (fixed 32-byte record at offset 0).
pub fn set(index: u64) {
    if let Some(f) = FILE.get() {
        let mut rec = [b' '; 32];
        rec[..4].copy_from_slice(b"IDX ");
        let mut d = [0u8; 20];
        fmt_u64(index, &mut d);
        rec[4..24].copy_from_slice(&d);
        rec[31] = b'\n';
        let _ = f.write_at(&rec, 0);
    }
}

/// Record "worker finished its slice normally".
pub fn done() {
    if let Some(f) = FILE.get() {
        let _ = f.write_at(b"DONE\n", 64);
    }
}

/// Called from inside the allocator (must not allocate).
pub fn mark_alloc_cap(size: usize) {
    if let Some(f) = FILE.get() {
        let mut rec = [b' '; 32];
        rec[..4].copy_from_slice(b"CAP ");
        let mut d = [0u8; 20];
        fmt_u64(size as u64, &mut d);
        rec[4..24].copy_from_slice(&d);
        rec[31] = b'\n';
        let _ = f.write_at(&rec, 32);
    }
}
