//! Constant `'static` zones of the harness (the "static TimeZoneRef shared by all
//! threads" case), built in const context through the public const constructors.

use tz::timezone::{AlternateTime, Julian0WithLeap, Julian1WithoutLeap, LeapSecond, LocalTimeType, MonthWeekDay, RuleDay, TimeZoneRef, Transition, TransitionRule};

macro_rules! unwrap {
    ($x:expr) => {
        match $x {
            Ok(x) => x,
            Err(_) => panic!(),
        }
    };
}

const K0: TimeZoneRef<'static> = unwrap!(TimeZoneRef::new(
    &[
        Transition::new(-2334101314, 1),
        Transition::new(-1157283000, 2),
        Transition::new(-1155436200, 1),
        Transition::new(-880198200, 3),
        Transition::new(-769395600, 4),
        Transition::new(-765376200, 1),
        Transition::new(-712150200, 5),
    ],
    const {
        &[
            unwrap!(LocalTimeType::new(-37886, false, Some(b"LMT"))),
            unwrap!(LocalTimeType::new(-37800, false, Some(b"HST"))),
            unwrap!(LocalTimeType::new(-34200, true, Some(b"HDT"))),
            unwrap!(LocalTimeType::new(-34200, true, Some(b"HWT"))),
            unwrap!(LocalTimeType::new(-34200, true, Some(b"HPT"))),
            unwrap!(LocalTimeType::new(-36000, false, Some(b"HST"))),
        ]
    },
    &[LeapSecond::new(78796800, 1), LeapSecond::new(94694401, 2), LeapSecond::new(126230402, 3), LeapSecond::new(157766403, 4), LeapSecond::new(189302404, 5), LeapSecond::new(220924805, 6),],
    const {
        &Some(TransitionRule::Alternate(unwrap!(AlternateTime::new(
            unwrap!(LocalTimeType::new(-36000, false, Some(b"HST"))),
            unwrap!(LocalTimeType::new(-34200, true, Some(b"HPT"))),
            RuleDay::MonthWeekDay(unwrap!(MonthWeekDay::new(10, 5, 0))),
            93600,
            RuleDay::MonthWeekDay(unwrap!(MonthWeekDay::new(3, 4, 4))),
            7200,
        ))))
    },
));

const K1: TimeZoneRef<'static> = unwrap!(TimeZoneRef::new(&[], const { &[unwrap!(LocalTimeType::new(3600, false, Some(b"KCET")))] }, &[], &None));

const K2: TimeZoneRef<'static> = unwrap!(TimeZoneRef::new(
    &[Transition::new(0, 1), Transition::new(3600, 0), Transition::new(7200, 1), Transition::new(1_700_000_000, 2)],
    const { &[unwrap!(LocalTimeType::new(0, false, Some(b"KAA"))), unwrap!(LocalTimeType::new(7200, true, Some(b"KBB"))), unwrap!(LocalTimeType::new(-7200, false, Some(b"KCC"))),] },
    &[],
    &None,
));

const K3: TimeZoneRef<'static> = unwrap!(TimeZoneRef::new(
    &[],
    const { &[unwrap!(LocalTimeType::new(36000, false, Some(b"KEST"))), unwrap!(LocalTimeType::new(39600, true, Some(b"KEDT")))] },
    &[],
    const {
        &Some(TransitionRule::Alternate(unwrap!(AlternateTime::new(
            unwrap!(LocalTimeType::new(36000, false, Some(b"KEST"))),
            unwrap!(LocalTimeType::new(39600, true, Some(b"KEDT"))),
            RuleDay::Julian1WithoutLeap(unwrap!(Julian1WithoutLeap::new(274))),
            7200,
            RuleDay::Julian0WithLeap(unwrap!(Julian0WithLeap::new(93))),
            10800,
        ))))
    },
));

pub const NK: usize = 4;

pub fn kzone(k: usize) -> TimeZoneRef<'static> {
    match k % NK {
        0 => K0,
        1 => K1,
        2 => K2,
        _ => K3,
    }
}
