//! Independent judgement of "is this zone spec a well-formed zone?" — in particular of
//! RFC 8536's requirement that the footer rule be consistent with the last transition —
//! written without calling tz-rs's zone constructor, its rule evaluation or its leap-second
//! conversion (the decoder relies on those, so using them for the expectation would make
//! the expectation move together with a bug in them). Returns `None` whenever the answer
//! hinges on a corner this small model does not want to take a position on.

use crate::spec::{DaySpec, RuleSpec, ZoneSpec};

/// days since 1970-01-01 of the civil date (proleptic Gregorian)
pub fn days_from_civil(y: i64, m: i64, d: i64) -> i64 {
    let y = if m <= 2 { y - 1 } else { y };
    let era = y.div_euclid(400);
    let yoe = y - era * 400;
    let mp = (m + 9) % 12;
    let doy = (153 * mp + 2) / 5 + d - 1;
    let doe = yoe * 365 + yoe / 4 - yoe / 100 + doy;
    era * 146097 + doe - 719468
}

/// civil year of a day number
pub fn year_of_days(z: i64) -> i64 {
    let z = z + 719468;
    let era = z.div_euclid(146097);
    let doe = z - era * 146097;
    let yoe = (doe - doe / 1460 + doe / 36524 - doe / 146096) / 365;
    let y = yoe + era * 400;
    let doy = doe - (365 * yoe + yoe / 4 - yoe / 100);
    let mp = (5 * doy + 2) / 153;
    let m = if mp < 10 { mp + 3 } else { mp - 9 };
    if m <= 2 {
        y + 1
    } else {
        y
    }
}

fn is_leap(y: i64) -> bool {
    y % 400 == 0 || (y % 4 == 0 && y % 100 != 0)
}

const CUMUL: [i64; 12] = [0, 31, 59, 90, 120, 151, 181, 212, 243, 273, 304, 334];
const DIM: [i64; 12] = [31, 28, 31, 30, 31, 30, 31, 31, 30, 31, 30, 31];

/// day number (since the epoch) of the rule day in year y
fn rule_day(d: &DaySpec, y: i64) -> Option<i64> {
    match d {
        DaySpec::J1(n) => {
            // 1..=365, February 29 is never counted
            if !(1..=365).contains(n) {
                return None;
            }
            let n = *n as i64;
            let m = (0..12).rev().find(|&i| CUMUL[i] < n)?;
            Some(days_from_civil(y, m as i64 + 1, n - CUMUL[m]))
        }
        DaySpec::J0(n) => {
            if *n > 365 {
                return None;
            }
            Some(days_from_civil(y, 1, 1) + *n as i64)
        }
        DaySpec::M(m, w, wd) => {
            if !(1..=12).contains(m) || !(1..=5).contains(w) || *wd > 6 {
                return None;
            }
            let first = days_from_civil(y, *m as i64, 1);
            let wd_first = (first + 4).rem_euclid(7); // 1970-01-01 was a Thursday (4)
            let mut day = 1 + (*wd as i64 - wd_first).rem_euclid(7) + (*w as i64 - 1) * 7;
            let dim = DIM[*m as usize - 1] + if *m == 2 && is_leap(y) { 1 } else { 0 };
            if day > dim {
                day -= 7;
            }
            Some(first + day - 1)
        }
    }
}

/// Is daylight saving time in force at `unix` under the rule? None = not decided by this model.
pub fn rule_is_dst_at(rule: &RuleSpec, unix: i64) -> Option<bool> {
    let (std_off, dst_off, start, start_time, end, end_time) = match rule {
        RuleSpec::Fixed { .. } => return Some(false),
        RuleSpec::Alt { std_off, dst_off, start, start_time, end, end_time, .. } => (*std_off as i64, *dst_off as i64, start, *start_time as i64, end, *end_time as i64),
    };
    if unix.unsigned_abs() > 60_000_000_000_000_000 {
        return None;
    }
    let y = year_of_days(unix.div_euclid(86400));
    let mut ev: Vec<(i64, bool)> = Vec::new();
    for yy in [y - 2, y - 1, y, y + 1, y + 2] {
        ev.push((rule_day(start, yy)? * 86400 + start_time - std_off, true));
        ev.push((rule_day(end, yy)? * 86400 + end_time - dst_off, false));
    }
    ev.sort();
    // coincident events or a non-alternating sequence: the rule is degenerate, take no position
    for w in ev.windows(2) {
        if w[0].0 == w[1].0 || w[0].1 == w[1].1 {
            return None;
        }
    }
    let last = ev.iter().rev().find(|e| e.0 <= unix)?;
    // stay away from the outermost events of the window
    if last.0 == ev[0].0 {
        return None;
    }
    Some(last.1)
}

/// Does the rule alternate cleanly (start, end, start, end, ...) through a whole 400-year cycle, with at
/// least two seconds between any two changes? Then it is a consistent rule whatever bounds an implementation
/// uses to decide that. `None`: not clearly so (no position; in particular never a verdict of "inconsistent").
pub fn rule_clearly_consistent(rule: &RuleSpec) -> Option<bool> {
    let (std_off, dst_off, start, start_time, end, end_time) = match rule {
        RuleSpec::Fixed { .. } => return Some(true),
        RuleSpec::Alt { std_off, dst_off, start, start_time, end, end_time, .. } => (*std_off as i64, *dst_off as i64, start, *start_time as i64, end, *end_time as i64),
    };
    let mut ev: Vec<(i64, bool)> = Vec::with_capacity(804);
    for yy in 1969..2371 {
        ev.push((rule_day(start, yy)? * 86400 + start_time - std_off, true));
        ev.push((rule_day(end, yy)? * 86400 + end_time - dst_off, false));
    }
    ev.sort();
    for w in ev.windows(2) {
        if w[1].0 - w[0].0 < 2 || w[0].1 == w[1].1 {
            return None;
        }
    }
    Some(true)
}

/// The instants (unix) at which the rule changes in the years around `unix` (for the generator).
pub fn rule_events_near(rule: &RuleSpec, unix: i64) -> Vec<i64> {
    let mut out = Vec::new();
    if let RuleSpec::Alt { std_off, dst_off, start, start_time, end, end_time, .. } = rule {
        if unix.unsigned_abs() > 60_000_000_000_000_000 {
            return out;
        }
        let y = year_of_days(unix.div_euclid(86400));
        for yy in [y, y + 1] {
            if let (Some(a), Some(b)) = (rule_day(start, yy), rule_day(end, yy)) {
                out.push(a * 86400 + *start_time as i64 - *std_off as i64);
                out.push(b * 86400 + *end_time as i64 - *dst_off as i64);
            }
        }
    }
    out
}

/// Unix time of a Unix-leap time, given the leap table. A count that is itself a leap record is the
/// inserted second: it shares the UTC value of the second that follows it (count t+1 under the new
/// correction = count t under the previous one), so a record applies strictly after its own count.
pub fn leap_to_unix(leaps: &[(i64, i32)], t: i64) -> Option<i64> {
    let mut corr = 0i64;
    for (lt, c) in leaps {
        if *lt < t {
            corr = *c as i64;
        }
    }
    t.checked_sub(corr)
}

/// Correction in force at a Unix time (for the generator: unix -> leap time).
pub fn unix_to_leap(leaps: &[(i64, i32)], unix: i64) -> i64 {
    let mut t = unix;
    for (lt, c) in leaps {
        if unix + (*c as i64) >= *lt {
            t = unix + *c as i64;
        }
    }
    t
}

fn desig_ok(d: &[u8]) -> bool {
    d.is_empty() || ((3..=7).contains(&d.len()) && d.iter().all(|b| b.is_ascii_alphanumeric() || *b == b'+' || *b == b'-'))
}

/// Some(true): a well-formed zone; Some(false): violates the format; None: no position.
pub fn independently_valid(z: &ZoneSpec) -> Option<bool> {
    if z.types.is_empty() {
        return Some(false);
    }
    for t in &z.types {
        if t.off == i32::MIN || !desig_ok(&t.desig) {
            return Some(false);
        }
        let isstd = z.indicators & 1 != 0 && t.isstd;
        let isut = z.indicators & 2 != 0 && t.isut;
        if isut && !isstd {
            return Some(false);
        }
    }
    for (i, (t, idx)) in z.trans.iter().enumerate() {
        if *idx as usize >= z.types.len() {
            return Some(false);
        }
        if i + 1 < z.trans.len() && *t >= z.trans[i + 1].0 {
            return Some(false);
        }
    }
    if let Some((t0, c0)) = z.leaps.first() {
        if *t0 < 0 || c0.unsigned_abs() != 1 {
            return Some(false);
        }
        for w in z.leaps.windows(2) {
            let dt = w[1].0.checked_sub(w[0].0)?;
            let dc = (w[1].1 as i64 - w[0].1 as i64).abs();
            if dt < 2_419_199 || dc != 1 {
                return Some(false);
            }
        }
    }
    let rule = match (&z.rule, z.version) {
        (None, _) | (_, 1) => return Some(true),
        (Some(r), v) => {
            if r.needs_extensions_styled(z.rule_style) && v < 3 {
                return Some(false);
            }
            r
        }
    };
    // the rule's parts are judged by their public constructors (simple range checks; not C08's subject); whether
    // its two changes keep their order in every year is judged here when that is clear-cut, so that a decoder
    // refusing a perfectly ordinary footer cannot hide behind its own rule constructor
    if !rule.parts_build() {
        return Some(false);
    }
    if rule_clearly_consistent(rule) != Some(true) && rule.build().is_none() {
        return Some(false);
    }
    let (lt, idx) = match z.trans.last() {
        None => return Some(true),
        Some(x) => *x,
    };
    // outside the range of representable date-times the library refuses for reasons of its own
    if lt.unsigned_abs() > 60_000_000_000_000_000 {
        return None;
    }
    let unix = leap_to_unix(&z.leaps, lt)?;
    let is_dst = rule_is_dst_at(rule, unix)?;
    let (off, dst, desig): (i32, bool, &[u8]) = match rule {
        RuleSpec::Fixed { off, desig } => (*off, false, desig),
        RuleSpec::Alt { std_off, std_desig, dst_off, dst_desig, .. } => {
            if is_dst {
                (*dst_off, true, dst_desig)
            } else {
                (*std_off, false, std_desig)
            }
        }
    };
    let t = &z.types[idx as usize];
    Some(t.off == off && t.dst == dst && t.desig[..] == *desig)
}
