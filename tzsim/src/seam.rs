//! Reader of the counters kept by the LD_PRELOAD shim `seam/seam.c` (libtzseam.so): how often
//! the process asked the operating system for the real clock, an environment variable, the real
//! file system, the working directory or the process id. The simulated world reaches tz-rs only
//! through the injected read function and the guarded clock hook, so during a simulated library
//! call every one of these counts must stay where it was.

use std::ffi::{c_char, c_void, CStr};
use std::sync::OnceLock;

extern "C" {
    fn dlsym(handle: *mut c_void, symbol: *const c_char) -> *mut c_void;
}

struct Shim {
    /// returns the calling thread's counter array
    counts: unsafe extern "C" fn() -> *const u64,
    last_path: unsafe extern "C" fn() -> *const c_char,
}

// SAFETY: the pointers refer to statics of the shim library, which live as long as the process
unsafe impl Send for Shim {}
unsafe impl Sync for Shim {}

static SHIM: OnceLock<Option<Shim>> = OnceLock::new();

pub const NK: usize = 7;
pub const KINDS: [&str; NK] = ["real clock", "environment variable", "real file system", "working directory", "process id", "standard streams", "file lock"];

pub fn init() {
    let _ = SHIM.set(unsafe {
        // RTLD_DEFAULT is a null handle on glibc
        let f = dlsym(std::ptr::null_mut(), b"tzseam_counts\0".as_ptr() as *const c_char);
        let g = dlsym(std::ptr::null_mut(), b"tzseam_last_path\0".as_ptr() as *const c_char);
        if f.is_null() || g.is_null() {
            None
        } else {
            let f: unsafe extern "C" fn() -> *const u64 = std::mem::transmute(f);
            Some(Shim { counts: f, last_path: std::mem::transmute::<*mut c_void, unsafe extern "C" fn() -> *const c_char>(g) })
        }
    });
}

/// Register the callback the shim makes before passing a file-system request on.
pub fn set_fs_hook(h: extern "C" fn(i32)) -> bool {
    unsafe {
        let f = dlsym(std::ptr::null_mut(), b"tzseam_set_hook\0".as_ptr() as *const c_char);
        if f.is_null() {
            return false;
        }
        let f: unsafe extern "C" fn(extern "C" fn(i32)) = std::mem::transmute(f);
        f(h);
        true
    }
}

pub fn present() -> bool {
    matches!(SHIM.get(), Some(Some(_)))
}

pub fn snapshot() -> [u64; NK] {
    match SHIM.get() {
        Some(Some(s)) => {
            let mut out = [0u64; NK];
            // SAFETY: the shim returns a pointer to an array of at least 8 words in the calling thread's TLS
            let p = unsafe { (s.counts)() };
            for (i, o) in out.iter_mut().enumerate() {
                *o = unsafe { std::ptr::read_volatile(p.add(i)) };
            }
            out
        }
        _ => [0; NK],
    }
}

/// First kind of request made since `before`: (kind index, how many, last path / variable name seen).
pub fn delta(before: &[u64; NK]) -> Option<(usize, u64, String)> {
    let now = snapshot();
    for i in 0..NK {
        if now[i] != before[i] {
            // only environment and file-system requests carry a name
            let what = match (i, SHIM.get()) {
                (1, Some(Some(s))) | (2, Some(Some(s))) => unsafe { CStr::from_ptr((s.last_path)()).to_string_lossy().into_owned() },
                _ => String::new(),
            };
            return Some((i, now[i] - before[i], what));
        }
    }
    None
}
