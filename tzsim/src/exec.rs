//! Executor: Scenario -> History + Verdict. Never draws from a PRNG.

use crate::alloc;
use crate::canon;
use crate::consts::kzone;
use crate::oracle::{check_expect, check_resolve, Res};
use crate::scn::{Content, Fault, Fields, Op, Scenario, TzArg, ZRef};
use crate::world::*;
use std::cell::RefCell;
use std::collections::BTreeMap;
use std::fmt::Write as _;
use std::panic::{catch_unwind, AssertUnwindSafe};
use std::sync::Arc;
use tz::datetime::{DateTime, FoundDateTimeKind, UtcDateTime};
use tz::timezone::{TimeZoneRef, TimeZoneSettings};
use tz::TimeZone;

thread_local! {
    pub static LAST_PANIC: RefCell<String> = const { RefCell::new(String::new()) };
    static AMBIENT_READS: RefCell<Vec<ReadRec>> = const { RefCell::new(Vec::new()) };
}

const AMBIENT_VALUES: &[&str] = &["corpus/Asia/Tokyo", "Asia/Tokyo", "UTC", "Europe/Paris", ":Europe/Paris", "localtime", "/usr/share/zoneinfo/UTC", "EST5EDT", " UTC ", "Nonexistent/Zone", "<+03>-3", "", ":", "/etc/localtime", ":/etc/localtime", "posixrules", "right/UTC", "Etc/GMT+5", "CET-1CEST,M3.5.0,M10.5.0/3", "UTC0", " UTC0\n", ":Nonexistent/Zone", "Europe", "/nonexistent/abs",
    // real files of the harness's own tree: empty, not a TZif file, cut short, a directory
    ":@CORPUS/../ambient/empty", "@CORPUS/../ambient/empty", "@CORPUS/../ambient/garbage", ":@CORPUS/../ambient/truncated", "@CORPUS/../ambient/dir", ":@CORPUS/../ambient/dir", "::@CORPUS/UTC", ":@CORPUS/UTC",
    // names that begin with "./" or "../": still names below the directories, never paths relative to the working
    // directory (each exists relative to one of the working directories the environment actor moves between)
    "./Asia/Tokyo", ":./Asia/Tokyo", "./corpus/Asia/Tokyo", ":./corpus/UTC", "../corpus/Asia/Tokyo", ":../corpus/UTC", "./usr/share/zoneinfo/UTC", "../usr/share/zoneinfo/UTC", "./etc/localtime"];

/// the `k`-th ambient TZ value ("@CORPUS" = the vendored tree)
fn ambient_value(args: &[i64]) -> String {
    let v = AMBIENT_VALUES[(args.first().copied().unwrap_or(0).unsigned_abs() % AMBIENT_VALUES.len() as u64) as usize];
    harness(|| v.replace("@CORPUS", &std::env::var("TZSIM_CORPUS").unwrap_or_else(|_| "/verif/corpus".into())))
}

/// std::fs::read with a record of what was asked (for the ambient, real-filesystem operations)
fn ambient_read(path: &str) -> Result<Vec<u8>, Box<dyn std::error::Error + Send + Sync + 'static>> {
    let r = std::fs::read(path);
    let rec = ReadRec {
        seq: 0,
        path: path.to_string(),
        res: match &r {
            Ok(b) => Ok((Arc::new(b.clone()), Expect::Unknown)),
            Err(_) => Err(crate::scn::ErrKind::Enoent),
        },
    };
    AMBIENT_READS.with(|a| a.borrow_mut().push(rec));
    Ok(r?)
}

/// Install the silent panic hook (records message + location for the catching side).
pub fn install_panic_hook() {
    std::panic::set_hook(Box::new(|info| {
        let msg = if let Some(s) = info.payload().downcast_ref::<&str>() {
            s.to_string()
        } else if let Some(s) = info.payload().downcast_ref::<String>() {
            s.clone()
        } else {
            "?".to_string()
        };
        let loc = info.location().map(|l| format!("{}:{}", l.file(), l.line())).unwrap_or_default();
        LAST_PANIC.with(|p| *p.borrow_mut() = format!("{msg} @ {loc}"));
    }));
}

#[derive(Clone, Copy, Default, Debug)]
pub struct Armed {
    pub c07: bool,
    pub c08: bool,
    pub c15: bool,
    pub c17: bool,
    pub c19: bool,
    pub c20: bool,
}

impl Armed {
    pub fn for_prop(p: &str) -> Self {
        let mut a = Armed::default();
        if std::env::var("TZSIM_ARM_ALL").is_ok() {
            return Armed { c07: true, c08: true, c15: true, c17: true, c19: true, c20: true };
        }
        match p {
            "C07" => a.c07 = true,
            "C08" => a.c08 = true,
            "C15" => a.c15 = true,
            "C17" => a.c17 = true,
            "C19" => a.c19 = true,
            "C20" => a.c20 = true,
            _ => {}
        }
        a
    }
    fn has(&self, oracle: &str) -> bool {
        match &oracle[..3] {
            "C07" => self.c07,
            "C08" => self.c08,
            "C15" => self.c15,
            "C17" => self.c17,
            "C19" => self.c19,
            "C20" => self.c20,
            _ => false,
        }
    }
}

#[derive(Clone, Default)]
pub struct ExecOpts {
    pub log_events: bool,
    /// also evaluate every recorded operation alone in a fresh child process
    pub cold: bool,
    /// path of this executable (for cold children)
    pub exe: String,
}

#[derive(Clone)]
pub enum Prov {
    Bytes(Arc<Vec<u8>>),
    Desc(Arc<String>),
}

pub struct SlotVal {
    pub zone: TimeZone,
    pub prov: Prov,
    /// heap blocks the library allocated for this zone (address, size): what a `&self` call must not modify
    pub blocks: Arc<Vec<(usize, usize)>>,
}

pub const NSLOTS: usize = 8;
pub const NPOOL: usize = 4;
pub const NBUFS: usize = 3;

pub struct ActorState<'c> {
    pub slots: Vec<Option<SlotVal>>,
    pub bufs: Vec<Vec<Option<FoundDateTimeKind>>>,
    pub canon: String,
    /// one long-lived settings object per actor (used whenever an operation asks for the full
    /// directory list), so that state kept inside a settings object across calls would show
    pub settings: Option<TimeZoneSettings<'c>>,
}

impl<'c> ActorState<'c> {
    pub fn new() -> Self {
        let mut canon = String::new();
        canon.reserve(1 << 16);
        ActorState { slots: (0..NSLOTS).map(|_| None).collect(), bufs: (0..NBUFS).map(|_| Vec::new()).collect(), canon, settings: None }
    }
}

/// Record of one executed operation (for alone re-execution).
pub struct OpRec {
    pub actor: usize,
    pub opi: usize,
    pub op: Op,
    pub canon: String,
    pub reads: Vec<ReadRec>,
    pub clock: Option<i128>,
    pub zprov: Option<Prov>,
    pub toprov: Option<Prov>,
    pub buf_before: Option<Vec<Option<FoundDateTimeKind>>>,
    pub dirs: Vec<String>,
}

pub struct Outcome {
    pub events: Vec<String>,
    pub sched_digest: u64,
    pub result_digest: u64,
    pub violations: Vec<Violation>,
    pub stats: RunStats,
    /// canonical result of the last operation of actor 0 (used by cold children)
    pub last_canon: String,
    pub nontrivial: bool,
}

struct Shared {
    pool: Vec<Option<(Arc<TimeZone>, Prov, Arc<Vec<(usize, usize)>>)>>,
    records: Vec<OpRec>,
}

static SHARED: std::sync::Mutex<Option<Shared>> = std::sync::Mutex::new(None);

/// (address, size) of this module's thread-local cells on the calling thread.
pub fn tls_cells() -> Vec<(usize, usize)> {
    fn r<T>(x: &T) -> (usize, usize) {
        (x as *const T as usize, std::mem::size_of::<T>())
    }
    vec![LAST_PANIC.with(r), AMBIENT_READS.with(r)]
}

/// Address range of the harness's shared-pool static (excluded from the static-data comparison).
pub fn shared_static_range() -> (usize, usize) {
    let a = &SHARED as *const _ as usize;
    (a, a + std::mem::size_of_val(&SHARED))
}

fn shared() -> std::sync::MutexGuard<'static, Option<Shared>> {
    SHARED.lock().unwrap_or_else(|e| e.into_inner())
}

pub struct Ctx<'a> {
    pub sc: &'a Scenario,
    pub armed: Armed,
    pub record: bool,
    pub dirs_all: Vec<&'a str>,
}

// ------------------------------------------------------------------ measured calls

pub struct Meas {
    /// first change of the executable's writable static data during the call: (offset, old, new)
    pub static_write: Option<(usize, u8, u8)>,
    /// first request to the operating system that bypassed the simulator's seams: (kind, count, what)
    pub ambient: Option<(usize, u64, String)>,
    /// heap blocks allocated during the call and still live (when recording was requested)
    pub blocks: Option<Vec<(usize, usize)>>,
    before: isize,
    pub peak: isize,
    pub allocs: u64,
    pub forbid_hits: u64,
    pub max_req: usize,
}

impl Meas {
    /// bytes still allocated by the library on this thread, once the caller dropped the results
    pub fn retained(&self) -> isize {
        alloc::live() - self.before - alloc::offset()
    }
}

/// Run a library call inside a measurement window; panics are caught.
pub fn measured<T>(forbid: bool, f: impl FnOnce() -> T) -> (Result<T, String>, Meas) {
    measured_x(forbid, false, f)
}

/// Same; `statics` = the call crosses no harness seam, so the executable's writable static data
/// must be bit-identical afterwards.
pub fn measured_x<T>(forbid: bool, statics: bool, f: impl FnOnce() -> T) -> (Result<T, String>, Meas) {
    measured_full(forbid, statics, false, f)
}

/// `record` = also return the heap blocks the call left allocated (the memory of the value it returned).
pub fn measured_full<T>(forbid: bool, statics: bool, record: bool, f: impl FnOnce() -> T) -> (Result<T, String>, Meas) {
    if statics {
        crate::statics::prepare();
    }
    let c0 = alloc::count();
    let f0 = alloc::forbid_hits();
    let before = alloc::window_start();
    if forbid {
        alloc::set_forbid(true);
    }
    if statics {
        crate::statics::snapshot();
    }
    let seam0 = if statics { crate::seam::snapshot() } else { [0; crate::seam::NK] };
    if record {
        alloc::record_start();
    }
    let r = catch_unwind(AssertUnwindSafe(f));
    let blocks = if record { harness(alloc::record_take) } else { None };
    let ambient = if statics && r.is_ok() { harness(|| crate::seam::delta(&seam0)) } else { None };
    let static_write = if statics && r.is_ok() { harness(|| crate::statics::changed().or_else(|| crate::statics::tls_changed().map(|(o, a, b)| (usize::MAX - o, a, b)))) } else { None };
    alloc::set_forbid(false);
    let peak = alloc::peak();
    let m = Meas { static_write, ambient, blocks, before, peak, allocs: alloc::count() - c0, forbid_hits: alloc::forbid_hits() - f0, max_req: alloc::max_request() };
    let r = match r {
        Ok(t) => Ok(t),
        Err(_) => Err(harness(|| LAST_PANIC.with(|p| p.borrow().clone()))),
    };
    (r, m)
}

// ------------------------------------------------------------------ zone handles

pub enum ZH<'a> {
    Owned(&'a TimeZone, Arc<Vec<(usize, usize)>>),
    Shared(Arc<TimeZone>, Arc<Vec<(usize, usize)>>),
    Konst(TimeZoneRef<'static>),
}

impl<'a> ZH<'a> {
    pub fn r(&self) -> TimeZoneRef<'_> {
        match self {
            ZH::Owned(z, _) => z.as_ref(),
            ZH::Shared(a, _) => a.as_ref().as_ref(),
            ZH::Konst(k) => *k,
        }
    }
    pub fn tz(&self) -> Option<&TimeZone> {
        match self {
            ZH::Owned(z, _) => Some(z),
            ZH::Shared(a, _) => Some(a),
            ZH::Konst(_) => None,
        }
    }
    /// FNV-style digest of the zone's own heap blocks
    pub fn blocks_digest(&self) -> u64 {
        let b = match self {
            ZH::Owned(_, b) | ZH::Shared(_, b) => b,
            ZH::Konst(_) => return 0,
        };
        let mut h: u64 = 0xcbf2_9ce4_8422_2325;
        for (a, n) in b.iter() {
            // SAFETY: the block was allocated for this zone by the library and the zone is alive (we hold a reference)
            let bytes = unsafe { std::slice::from_raw_parts(*a as *const u8, *n) };
            let mut chunks = bytes.chunks_exact(8);
            for c in &mut chunks {
                h = (h ^ u64::from_le_bytes(c.try_into().unwrap())).wrapping_mul(0x0000_0100_0000_01B3);
            }
            for x in chunks.remainder() {
                h = (h ^ *x as u64).wrapping_mul(0x0000_0100_0000_01B3);
            }
        }
        h
    }
}

fn handle<'a>(st: &'a ActorState<'_>, z: &ZRef) -> Option<(ZH<'a>, Option<Prov>)> {
    match z {
        ZRef::P(k) => st.slots[k % NSLOTS].as_ref().map(|s| (ZH::Owned(&s.zone, s.blocks.clone()), Some(s.prov.clone()))),
        ZRef::S(k) => {
            let g = shared();
            g.as_ref().and_then(|s| s.pool[k % NPOOL].as_ref().map(|(a, p, b)| (ZH::Shared(a.clone(), b.clone()), Some(p.clone()))))
        }
        ZRef::U => Some((ZH::Konst(TimeZoneRef::utc()), None)),
        ZRef::K(k) => Some((ZH::Konst(kzone(*k)), None)),
    }
}

// ------------------------------------------------------------------ stack formatting

pub struct StackBuf {
    pub b: [u8; 160],
    pub n: usize,
    pub overflow: bool,
}

impl std::fmt::Write for StackBuf {
    fn write_str(&mut self, s: &str) -> std::fmt::Result {
        let bytes = s.as_bytes();
        if self.n + bytes.len() > self.b.len() {
            self.overflow = true;
            return Err(std::fmt::Error);
        }
        self.b[self.n..self.n + bytes.len()].copy_from_slice(bytes);
        self.n += bytes.len();
        Ok(())
    }
}

// ------------------------------------------------------------------ queries (shared by concurrent and alone execution)

fn r_ltt(out: &mut String, r: &Result<tz::LocalTimeType, tz::TzError>) {
    match r {
        Ok(l) => {
            out.push_str("Ok");
            canon::ltt(out, l)
        }
        Err(e) => canon::tzerr(out, e),
    }
}

fn r_dt(out: &mut String, r: &Result<DateTime, tz::TzError>) {
    match r {
        Ok(d) => {
            out.push_str("Ok(");
            canon::dt(out, d);
            out.push(')')
        }
        Err(e) => canon::tzerr(out, e),
    }
}

fn r_utc(out: &mut String, r: &Result<UtcDateTime, tz::TzError>) {
    match r {
        Ok(d) => {
            out.push_str("Ok(");
            canon::utc(out, d);
            out.push(')')
        }
        Err(e) => canon::tzerr(out, e),
    }
}

fn render_buf(out: &mut String, buf: &[Option<FoundDateTimeKind>]) {
    out.push('[');
    for x in buf {
        match x {
            None => out.push_str("None"),
            Some(f) => canon::found(out, f),
        }
        out.push(';');
    }
    out.push(']');
}

pub struct QueryOut {
    pub meas: Option<Meas>,
    pub panicked: Option<String>,
    /// extra findings of inline oracles (C17, clock)
    pub findings: Vec<(String, String, String)>,
    pub probes: Vec<&'static str>,
    pub noalloc_surface: bool,
}

/// Evaluate a pure query operation on the given zone(s); canonical result appended to `out`.
#[allow(clippy::too_many_arguments)]
pub fn eval_query(op: &Op, zh: Option<&ZH>, toh: Option<&ZH>, buf: Option<&mut Vec<Option<FoundDateTimeKind>>>, clock_now: i128, out: &mut String) -> QueryOut {
    let mut q = QueryOut { meas: None, panicked: None, findings: vec![], probes: vec![], noalloc_surface: false };
    macro_rules! need {
        ($h:expr) => {
            match $h {
                Some(h) => h.r(),
                None => {
                    out.push_str("skip(no zone)");
                    return q;
                }
            }
        };
    }
    macro_rules! run {
        ($forbid:expr, $e:expr) => {{
            // (the harness's own statics that the clock seam touches are excluded from the comparison)
            let zdig = zh.map_or(0, |h| h.blocks_digest()) ^ toh.map_or(0, |h| h.blocks_digest().rotate_left(1));
            let (r, m) = measured_x($forbid, true, || $e);
            if zh.map_or(0, |h| h.blocks_digest()) ^ toh.map_or(0, |h| h.blocks_digest().rotate_left(1)) != zdig {
                harness(|| q.findings.push(("C15.interior_write".into(), "zone-memory-modified".into(), format!("{}: a call through a shared reference modified the heap memory of the zone it was given (hidden interior mutability)", op.text()))));
            }
            if !matches!(op, Op::Now { .. } | Op::UtcNow | Op::Current { .. }) && CLOCK_READS.with(|c| !c.borrow().is_empty()) {
                harness(|| q.findings.push(("C15.ambient_read".into(), "clock-read-by-an-operation-that-is-given-its-instant".into(), format!("{}: the call read the (simulated) system clock although it takes its instant as an argument: its result can differ between two moments", op.text()))));
            }
            if let Some((k, n, what)) = &m.ambient {
                harness(|| q.findings.push(("C15.ambient_read".into(), crate::seam::KINDS[*k].replace(' ', "-"), format!("{}: the call asked the operating system for the {} {n} time(s) (last: {what:?}) - state the simulator does not own and the result must not depend on", op.text(), crate::seam::KINDS[*k]))));
            }
            if let Some((off, old, new)) = m.static_write {
                harness(|| q.findings.push(("C15.static_write".into(), "static-data-written".into(), format!("{}: the call changed process-global state ({}: {old:#04x} -> {new:#04x}); no operation may write statics or thread-locals", op.text(), crate::statics::describe(off)))));
            }
            q.noalloc_surface = $forbid;
            q.meas = Some(m);
            match r {
                Ok(v) => v,
                Err(p) => {
                    let _ = write!(out, "PANIC({p})");
                    q.panicked = Some(p);
                    return q;
                }
            }
        }};
    }
    match op {
        Op::Lookup { t, .. } => {
            let z = need!(zh);
            let r = run!(true, z.find_local_time_type(*t).map(|l| *l));
            harness(|| r_ltt(out, &r));
            // the owned zone has its own entry point: it must say the same
            if let Some(owned) = zh.and_then(|h| h.tz()) {
                let ro = run!(true, owned.find_local_time_type(*t).map(|l| *l));
                harness(|| {
                    out.push_str(" owned=");
                    r_ltt(out, &ro);
                });
                let same = match (&r, &ro) {
                    (Ok(a), Ok(b)) => a == b,
                    (Err(a), Err(b)) => format!("{a:?}") == format!("{b:?}"),
                    _ => false,
                };
                if !same {
                    q.findings.push(("C15.alone_vs_concurrent".into(), "owned-and-borrowed-lookup-differ".into(), format!("lookup t={t}: TimeZone::find_local_time_type and TimeZoneRef::find_local_time_type on the same zone disagree: {out}")));
                }
            }
            if let Ok(l) = &r {
                let mut ok = z.local_time_types().iter().any(|x| x == l);
                if let Some(tz::timezone::TransitionRule::Fixed(f)) = z.extra_rule() {
                    ok |= f == l;
                }
                if let Some(tz::timezone::TransitionRule::Alternate(a)) = z.extra_rule() {
                    ok |= a.std() == l || a.dst() == l;
                }
                if !ok {
                    q.findings.push(("C15.alone_vs_concurrent".into(), "foreign-local-time-type".into(), format!("lookup t={t} returned a local time type that does not belong to the zone it was asked of: {out}")));
                }
            }
        }
        Op::FromTs { t, ns, .. } => {
            let z = need!(zh);
            let r = run!(true, DateTime::from_timespec(*t, *ns, z));
            harness(|| r_dt(out, &r));
        }
        Op::FromTotal { n, .. } => {
            let z = need!(zh);
            let r = run!(true, DateTime::from_total_nanoseconds(*n, z));
            harness(|| r_dt(out, &r));
        }
        Op::Project { t, ns, .. } => {
            let z = need!(zh);
            let to = need!(toh);
            let r = run!(true, {
                let a = DateTime::from_timespec(*t, *ns, z);
                let b = a.as_ref().ok().map(|d| d.project(to));
                (a, b)
            });
            harness(|| {
                r_dt(out, &r.0);
                out.push_str(" -> ");
                match &r.1 {
                    Some(b) => r_dt(out, b),
                    None => out.push('-'),
                }
            });
        }
        Op::UtcProject { t, ns, .. } => {
            let to = need!(toh);
            let r = run!(true, {
                let a = UtcDateTime::from_timespec(*t, *ns);
                let b = a.as_ref().ok().map(|d| d.project(to));
                (a, b)
            });
            harness(|| {
                r_utc(out, &r.0);
                out.push_str(" -> ");
                match &r.1 {
                    Some(b) => r_dt(out, b),
                    None => out.push('-'),
                }
            });
        }
        Op::Find { f, .. } => {
            let z = need!(zh);
            let r = run!(false, DateTime::find(f.y, f.mo, f.d, f.h, f.mi, f.s, f.ns, z));
            harness(|| render_find(out, &r));
            if let Ok(list) = &r {
                // every date-time handed back lies in the supported range (its own timestamp is accepted by
                // from_timespec): a search at the year limits whose instant falls outside must be refused (C07)
                harness(|| {
                    for k in list.clone().into_inner() {
                        // (only the instants that show the requested local time: a skipped entry carries the instant of the
                        // zone's own transition, which a zone may legitimately place outside the range)
                        if let FoundDateTimeKind::Normal(d) = k {
                            if UtcDateTime::from_timespec(d.unix_time(), d.nanoseconds()).is_err() {
                                q.findings.push(("C07.error_value".into(), "find-out-of-range".into(), format!("find returned a date-time whose Unix time {} is outside the supported range", d.unix_time())));
                            }
                        }
                    }
                });
            }
            if let (Some(m), Ok(list)) = (&q.meas, &r) {
                // allocation bound for the allocating search (C07)
                let k = list.clone().into_inner().len();
                let bound = 4 * k * std::mem::size_of::<FoundDateTimeKind>() + 1024;
                if m.peak > bound as isize {
                    q.findings.push(("C07.alloc_bound".into(), "find".into(), format!("find with {k} results peaked at {} bytes (> {bound})", m.peak)));
                }
            }
            drop(r);
        }
        Op::FindN { f, n, .. } => {
            let z = need!(zh);
            let buf = match buf {
                Some(b) => b,
                None => {
                    out.push_str("skip(no buffer)");
                    return q;
                }
            };
            harness(|| buf.resize(*n, None));
            let before: Vec<Option<FoundDateTimeKind>> = harness(|| buf.clone());
            // the call; the returned wrapper borrows the buffer, so extract everything inside the window
            let r = run!(true, {
                match DateTime::find_n(&mut buf[..], f.y, f.mo, f.d, f.h, f.mi, f.s, f.ns, z) {
                    Ok(l) => Ok((l.count(), l.is_exhaustive(), l.data().len(), l.unique(), l.earliest(), l.latest())),
                    Err(e) => Err(e),
                }
            });
            harness(|| {
                match &r {
                    Ok((count, exh, dlen, u, e, l)) => {
                        let _ = write!(out, "Ok(count={count} exhaustive={exh} data_len={dlen} unique=");
                        canon::opt_dt(out, u);
                        out.push_str(" earliest=");
                        canon::opt_dt(out, e);
                        out.push_str(" latest=");
                        canon::opt_dt(out, l);
                        out.push(')');
                    }
                    Err(e) => canon::tzerr(out, e),
                }
                out.push_str(" buf=");
                render_buf(out, buf);
            });
            // C17 oracle: compare with the allocating search
            harness(|| {
                c17_check(&mut q, f, *n, z, &before, buf, &r);
                drop(before);
            });
        }
        Op::FindAt { z: zr_, pick, delta, n, buf: bi } => {
            let z = need!(zh);
            // derive the searched local time from the zone itself (harness-side use of the conversion)
            let tr = z.transitions();
            let fields = harness(|| {
                if tr.is_empty() {
                    return None;
                }
                let i = (*pick % tr.len() as u64) as usize;
                let t = tr[i].unix_leap_time().checked_add(*delta)?;
                let before = if i == 0 { 0 } else { tr[i - 1].local_time_type_index() };
                let idx = if (*pick / tr.len() as u64) % 2 == 0 { before } else { tr[i].local_time_type_index() };
                let off = z.local_time_types().get(idx)?.ut_offset() as i64;
                let u = UtcDateTime::from_timespec(t.checked_add(off)?, 0).ok()?;
                Some(Fields { y: u.year(), mo: u.month(), d: u.month_day(), h: u.hour(), mi: u.minute(), s: u.second(), ns: if *pick % 3 == 0 { 0 } else { (*pick % 1_000_000_000) as u32 } })
            });
            match fields {
                None => out.push_str("skip(no transition)"),
                Some(f) => {
                    harness(|| {
                        let _ = write!(out, "at {} ", f.text());
                    });
                    let inner = Op::FindN { z: zr_.clone(), f, n: *n, buf: *bi };
                    return eval_query(&inner, zh, toh, buf, clock_now, out);
                }
            }
        }
        Op::Format { t, ns, .. } => {
            let z = need!(zh);
            let mut sb = StackBuf { b: [0; 160], n: 0, overflow: false };
            let mut sb2 = StackBuf { b: [0; 160], n: 0, overflow: false };
            let r = run!(true, {
                let d = DateTime::from_timespec(*t, *ns, z);
                if let Ok(d) = &d {
                    let _ = write!(sb, "{d}");
                }
                let u = UtcDateTime::from_timespec(*t, *ns);
                if let Ok(u) = &u {
                    let _ = write!(sb2, "{u}");
                }
                (d.is_ok(), u.is_ok())
            });
            harness(|| {
                let _ = write!(out, "fmt({},{:?},{},{:?})", r.0, std::str::from_utf8(&sb.b[..sb.n]).unwrap_or("?"), r.1, std::str::from_utf8(&sb2.b[..sb2.n]).unwrap_or("?"));
            });
        }
        Op::Now { .. } => {
            let z = need!(zh);
            let r = run!(false, DateTime::now(z));
            harness(|| r_dt(out, &r));
            let reading = CLOCK_READS.with(|c| c.borrow().last().copied()).unwrap_or(clock_now);
            let exp = DateTime::from_total_nanoseconds(reading, z);
            let mut e = String::new();
            r_dt(&mut e, &exp);
            if e != *out {
                q.findings.push(("C15.clock_only".into(), "now-differs-from-reading".into(), format!("DateTime::now gave {out} but the clock read {reading} which converts to {e}")));
            }
        }
        Op::UtcNow => {
            let r = run!(false, UtcDateTime::now());
            harness(|| r_utc(out, &r));
            let reading = CLOCK_READS.with(|c| c.borrow().last().copied()).unwrap_or(clock_now);
            let exp = UtcDateTime::from_total_nanoseconds(reading);
            let mut e = String::new();
            r_utc(&mut e, &exp);
            if e != *out {
                q.findings.push(("C15.clock_only".into(), "utcnow-differs-from-reading".into(), format!("UtcDateTime::now gave {out} but the clock read {reading} which converts to {e}")));
            }
        }
        Op::Current { .. } => {
            let h = match zh {
                Some(h) => h,
                None => {
                    out.push_str("skip(no zone)");
                    return q;
                }
            };
            let tzv = match h.tz() {
                Some(t) => t,
                None => {
                    out.push_str("skip(not an owned zone)");
                    return q;
                }
            };
            let r = run!(false, tzv.find_current_local_time_type().map(|l| *l));
            harness(|| r_ltt(out, &r));
            let reading = CLOCK_READS.with(|c| c.borrow().last().copied()).unwrap_or(clock_now);
            // the statement does not fix the rounding of negative readings: accept floor and truncation
            let clamp = |v: i128| v.clamp(i64::MIN as i128, i64::MAX as i128) as i64;
            let cands = [clamp(reading.div_euclid(1_000_000_000)), clamp(reading / 1_000_000_000)];
            let mut ok = false;
            let mut e = String::new();
            for s in cands {
                e.clear();
                r_ltt(&mut e, &tzv.find_local_time_type(s).map(|l| *l));
                if e == *out {
                    ok = true;
                }
            }
            if !ok {
                q.findings.push(("C15.clock_only".into(), "current-differs-from-reading".into(), format!("find_current_local_time_type gave {out} but the clock read {reading} which gives {e}")));
            }
        }
        Op::Boundary { picks, .. } => {
            let z = need!(zh);
            boundary(&mut q, z, picks, out);
        }
        _ => out.push_str("skip(not a query)"),
    }
    q
}

fn render_find(out: &mut String, r: &Result<tz::datetime::FoundDateTimeList, tz::TzError>) {
    match r {
        Ok(l) => {
            out.push_str("Ok(unique=");
            canon::opt_dt(out, &l.unique());
            out.push_str(" earliest=");
            canon::opt_dt(out, &l.earliest());
            out.push_str(" latest=");
            canon::opt_dt(out, &l.latest());
            out.push_str(" list=[");
            canon::found_list(out, l.clone().into_inner().iter());
            out.push_str("])");
        }
        Err(e) => canon::tzerr(out, e),
    }
}

fn deep_found(a: &FoundDateTimeKind) -> String {
    let mut s = String::new();
    canon::found(&mut s, a);
    s
}

fn deep_opt_found(a: &Option<FoundDateTimeKind>) -> String {
    match a {
        None => "None".into(),
        Some(f) => deep_found(f),
    }
}

fn deep_opt_dt(a: &Option<DateTime>) -> String {
    let mut s = String::new();
    canon::opt_dt(&mut s, a);
    s
}

type FindNView = Result<(usize, bool, usize, Option<DateTime>, Option<DateTime>, Option<DateTime>), tz::TzError>;

fn c17_check(q: &mut QueryOut, f: &Fields, n: usize, z: TimeZoneRef<'_>, before: &[Option<FoundDateTimeKind>], after: &[Option<FoundDateTimeKind>], r: &FindNView) {
    let reference = DateTime::find(f.y, f.mo, f.d, f.h, f.mi, f.s, f.ns, z);
    let at = format!("fields={} n={n}", f.text());
    let mut bad = |oracle: &str, sig: &str, d: String| q.findings.push((oracle.to_string(), sig.to_string(), d));
    match (&reference, r) {
        (Err(e1), Err(e2)) => {
            if format!("{e1:?}") != format!("{e2:?}") {
                bad("C17.class", "different-error", format!("{at}: find failed with {e1:?}, find_n with {e2:?}"));
            }
            q.probes.push("findn_error");
        }
        (Ok(_), Err(e)) => bad("C17.class", "findn-fails-find-succeeds", format!("{at}: find succeeded, find_n failed with {e:?}")),
        (Err(e), Ok(_)) => bad("C17.class", "find-fails-findn-succeeds", format!("{at}: find failed with {e:?}, find_n succeeded")),
        (Ok(list), Ok((count, exhaustive, dlen, u, e, l))) => {
            let full = list.clone().into_inner();
            let k = full.len();
            let m = n.min(k);
            if *count != k {
                bad("C17.count", "count", format!("{at}: find_n reports count {count}, the allocating search has {k} results"));
            }
            if *exhaustive != (n >= k) {
                bad("C17.exhaustive", "exhaustive", format!("{at}: is_exhaustive()={exhaustive} but n={n}, k={k}"));
            }
            if *dlen != m {
                bad("C17.prefix", "data-len", format!("{at}: data() has {dlen} entries, expected min(n,k)={m}"));
            }
            for i in 0..m.min(after.len()) {
                let got = deep_opt_found(&after[i]);
                let exp = deep_found(&full[i]);
                if got != exp {
                    bad("C17.prefix", "prefix-entry", format!("{at}: slot {i} holds {got}, the allocating search's entry {i} is {exp}"));
                    break;
                }
            }
            for i in m..after.len().min(before.len()) {
                let a = deep_opt_found(&after[i]);
                let b = deep_opt_found(&before[i]);
                if a != b {
                    bad("C17.tail_untouched", "tail-slot-changed", format!("{at}: slot {i} (beyond the {m} reported) changed from {b} to {a}"));
                    break;
                }
            }
            if n >= k {
                if deep_opt_dt(u) != deep_opt_dt(&list.unique()) {
                    bad("C17.accessors", "unique", format!("{at}: unique() {} vs allocating {}", deep_opt_dt(u), deep_opt_dt(&list.unique())));
                }
                if deep_opt_dt(e) != deep_opt_dt(&list.earliest()) {
                    bad("C17.accessors", "earliest", format!("{at}: earliest() {} vs allocating {}", deep_opt_dt(e), deep_opt_dt(&list.earliest())));
                }
                if deep_opt_dt(l) != deep_opt_dt(&list.latest()) {
                    bad("C17.accessors", "latest", format!("{at}: latest() {} vs allocating {}", deep_opt_dt(l), deep_opt_dt(&list.latest())));
                }
            }
            if n < k {
                q.probes.push("findn_buffer_smaller_than_result");
            }
            if n == 0 {
                q.probes.push("findn_zero_length_buffer");
            }
            if k >= 2 {
                q.probes.push("findn_k_ge_2");
            }
            if k >= 3 {
                q.probes.push("findn_k_ge_3");
            }
            if k == 0 {
                q.probes.push("findn_k_eq_0");
            }
            if full.iter().any(|x| matches!(x, FoundDateTimeKind::Skipped { .. })) {
                q.probes.push("findn_skipped_result");
            }
            if before.iter().skip(m).any(|x| x.is_some()) {
                q.probes.push("findn_stale_tail_present");
            }
        }
    }
}

/// The full query set at instants picked from the zone's own boundary list (C07 follow-ups).
fn boundary(q: &mut QueryOut, z: TimeZoneRef<'_>, picks: &[i64], out: &mut String) {
    let mut inst: Vec<i64> = vec![i64::MIN, i64::MIN + 1, -67768100567971201, -67768100567971200, -67768100567971199, 67767976233532798, 67767976233532799, 67767976233532800, i64::MAX - 1, i64::MAX, 0, -1, i32::MIN as i64, i32::MAX as i64, -62167219200, 253402300799];
    for t in z.transitions() {
        let t = t.unix_leap_time();
        inst.extend_from_slice(&[t.saturating_sub(1), t, t.saturating_add(1)]);
    }
    for l in z.leap_seconds() {
        let t = l.unix_leap_time();
        inst.extend_from_slice(&[t.saturating_sub(30), t.saturating_sub(1), t, t.saturating_add(1), t.saturating_sub(l.correction() as i64), t.saturating_sub(l.correction() as i64).saturating_sub(1)]);
    }
    if let Some(last) = z.transitions().last() {
        let t = last.unix_leap_time();
        for y in [1i64, 2, 50, 1000] {
            inst.push(t.saturating_add(y * 31_556_952));
        }
    }
    let mut sb = StackBuf { b: [0; 160], n: 0, overflow: false };
    let mut buf = [None; 3];
    let mut panics: Option<String> = None;
    let mut nfound = 0usize;
    for p in picks {
        let t = inst[(p.unsigned_abs() % inst.len() as u64) as usize];
        let ns = if p % 3 == 0 { 999_999_999 } else { (p.unsigned_abs() % 1_000_000_000) as u32 };
        let (r, _m) = measured(false, || {
            let a = z.find_local_time_type(t).map(|l| *l);
            let d = DateTime::from_timespec(t, ns, z);
            let tot = DateTime::from_total_nanoseconds(t as i128 * 1_000_000_000 + ns as i128, z);
            let u = UtcDateTime::from_timespec(t, ns);
            let mut found = None;
            let mut found_n = None;
            if let Ok(d) = &d {
                sb.n = 0;
                let _ = write!(sb, "{d}");
                let _ = d.project(TimeZoneRef::utc());
                let sec = if p % 5 == 0 { 60 } else { d.second() };
                found = Some(DateTime::find(d.year(), d.month(), d.month_day(), d.hour(), d.minute(), sec, d.nanoseconds(), z).map(|l| l.into_inner().len()));
                found_n = Some(DateTime::find_n(&mut buf, d.year(), d.month(), d.month_day(), d.hour(), d.minute(), sec, d.nanoseconds(), z).map(|l| l.count()));
                let _ = (d.week_day(), d.year_day(), d.total_nanoseconds());
            }
            if let Ok(u) = &u {
                let _ = u.project(z);
                let _ = (u.week_day(), u.year_day(), u.total_nanoseconds(), u.unix_time());
            }
            (a.is_ok(), d.is_ok(), tot.is_ok(), found, found_n)
        });
        match r {
            Ok((a, d, tot, f, fnn)) => {
                if let Some(Ok(k)) = f {
                    nfound += k;
                }
                let _ = write!(out, "[{t}:{}{}{}{}{}]", a as u8, d as u8, tot as u8, f.map_or('-', |x| if x.is_ok() { 'o' } else { 'e' }), fnn.map_or('-', |x| if x.is_ok() { 'o' } else { 'e' }));
            }
            Err(p) => {
                let _ = write!(out, "[{t}:PANIC({p})]");
                panics = Some(p);
            }
        }
    }
    if nfound > 0 {
        q.probes.push("boundary_probe_found_datetimes");
    }
    q.panicked = panics;
}

// ------------------------------------------------------------------ running one operation

/// Did the recorded panic start in the library's own source (as opposed to the harness or, ambiguously, std)?
fn panic_in_library(p: &str) -> bool {
    match p.rsplit_once(" @ ") {
        // the library is a path dependency: its locations are absolute paths; the harness's are relative to its crate
        Some((_, loc)) => loc.starts_with('/') && !loc.starts_with("/rustc/") && !loc.contains("/tzsim/") && !loc.contains("/.cargo/"),
        None => false,
    }
}

/// One operation; a panic of the library that escapes while the harness reads a result through the
/// public getters or `Display` (outside the measured call) is a C07 violation, not a harness error.
fn run_op_guarded<'c>(ctx: &'c Ctx<'c>, me: usize, st: &mut ActorState<'c>, opi: usize, op: &Op) {
    if let Err(e) = catch_unwind(AssertUnwindSafe(|| run_op(ctx, me, st, opi, op))) {
        alloc::set_forbid(false);
        alloc::unpause();
        let p = LAST_PANIC.with(|p| p.borrow().clone());
        if panic_in_library(&p) {
            push_violation(&ctx.armed, "C07.panic", "panic-reading-result", format!("op #{opi} {}: the library panicked while the result was being read through its public getters / Display: {p}", op.text()));
        } else {
            std::panic::resume_unwind(e);
        }
    }
}

fn push_violation(armed: &Armed, oracle: &str, sig: &str, detail: String) {
    let mut g = lock();
    if let Some(w) = g.as_mut() {
        if armed.has(oracle) {
            w.violate(oracle, sig, detail);
        } else {
            w.stats.foreign += 1;
        }
    }
}

fn probe(name: &'static str) {
    let mut g = lock();
    if let Some(w) = g.as_mut() {
        w.stats.probe(name);
    }
}

fn state_class(op: &str, outcome: &str) {
    let mut g = lock();
    if let Some(w) = g.as_mut() {
        // outcome class: everything up to the first '(' or ' ' of the canonical result
        let cls: String = outcome.chars().take_while(|c| *c != ' ' && *c != '[').take(40).collect();
        let h = crate::prng::fnv(format!("{op}|{cls}").as_bytes());
        w.stats.states.insert(h);
    }
}

pub fn run_op<'c>(ctx: &'c Ctx<'c>, me: usize, st: &mut ActorState<'c>, opi: usize, op: &Op) {
    let armed = &ctx.armed;
    {
        let mut g = lock();
        if let Some(w) = g.as_mut() {
            w.stats.ops += 1;
            w.ev(2, format!("a{me} invoke #{opi} {}", op.text()));
        }
    }
    let mut out = std::mem::take(&mut st.canon);
    out.clear();
    let clock_now = lock().as_ref().map_or(0, |w| w.clock);
    CLOCK_READS.with(|c| c.borrow_mut().clear());
    let mut rec = if ctx.record {
        Some(OpRec { actor: me, opi, op: op.clone(), canon: String::new(), reads: vec![], clock: None, zprov: None, toprov: None, buf_before: None, dirs: vec![] })
    } else {
        None
    };
    let mut retained: Option<(isize, &'static str)> = None;
    let mut panicked: Option<String> = None;

    match op {
        Op::Resolve { .. } | Op::ResolveLocal { .. } => {
            let (tzarg, dirs, slot, local) = match op {
                Op::Resolve { tz, dirs, slot } => (tz.clone(), dirs, *slot, false),
                Op::ResolveLocal { dirs, slot } => (TzArg::Lit("localtime".into()), dirs, *slot, true),
                _ => unreachable!(),
            };
            let tzv = tzarg.value();
            let dirv: Vec<&str> = dirs.iter().filter_map(|i| ctx.sc.dirs.get(*i).map(|s| s.as_str())).collect();
            OP_READS.with(|r| r.borrow_mut().clear());
            if let Some(w) = lock().as_mut() {
                w.in_resolve[me] = true;
            }
            let full_list = dirs.len() == ctx.dirs_all.len() && dirs.iter().enumerate().all(|(i, d)| *d == i);
            if full_list && st.settings.is_none() {
                st.settings = Some(TimeZoneSettings::new(&ctx.dirs_all[..], sim_read));
            }
            let persistent = if full_list { st.settings.as_ref() } else { None };
            let (r, m) = measured_full(false, true, true, || {
                let fresh;
                let settings = match persistent {
                    Some(s) => s,
                    None => {
                        fresh = TimeZoneSettings::new(&dirv, sim_read);
                        &fresh
                    }
                };
                if local {
                    settings.parse_local()
                } else {
                    settings.parse_posix_tz(&tzv)
                }
            });
            if let Some(w) = lock().as_mut() {
                w.in_resolve[me] = false;
            }
            if CLOCK_READS.with(|c| !c.borrow().is_empty()) {
                harness(|| push_violation(armed, "C15.ambient_read", "clock-read-by-an-operation-that-is-given-its-instant", format!("resolving {tzv:?} read the (simulated) system clock")));
            }
            if let Some((k, n, what)) = &m.ambient {
                harness(|| {
                    let d = format!("resolving {tzv:?} through the injected reader also asked the operating system for the {} {n} time(s) (last: {what:?})", crate::seam::KINDS[*k]);
                    push_violation(armed, "C15.ambient_read", &crate::seam::KINDS[*k].replace(' ', "-"), d.clone());
                    if *k == 2 || *k == 3 {
                        push_violation(armed, "C20.open_history", "bypassed-the-read-function", d);
                    }
                });
            }
            if let Some((off, old, new)) = m.static_write {
                harness(|| push_violation(armed, "C15.static_write", "static-data-written", format!("resolving {tzv:?} changed process-global state ({}: {old:#04x} -> {new:#04x}); no operation may write statics or thread-locals", crate::statics::describe(off))));
            }
            let reads: Vec<ReadRec> = harness(|| OP_READS.with(|r| std::mem::take(&mut *r.borrow_mut())));
            // canonical result
            let res = harness(|| match &r {
                Ok(rr) => {
                    match rr {
                        Ok(z) => {
                            out.push_str("Ok(");
                            canon::zone(&mut out, z.as_ref());
                            out.push(')');
                        }
                        Err(e) => canon::err(&mut out, e),
                    }
                    Res::of(rr)
                }
                Err(p) => {
                    let _ = write!(out, "PANIC({p})");
                    Res::Panic(p.clone())
                }
            });
            // oracles
            harness(|| {
                let chk = check_resolve(&tzarg, local, &dirv, &reads, &res);
                for p in &chk.probes {
                    probe(p);
                }
                if chk.footer_unparsed {
                    probe("footer_not_understood_by_reference");
                }
                for (kind, sig, detail) in chk.findings {
                    match kind {
                        "panic" => push_violation(armed, "C07.panic", &sig, detail),
                        "open_history" => push_violation(armed, "C20.open_history", &sig, detail),
                        "result" | "result_file" => push_violation(armed, "C20.result_file", &sig, detail),
                        "result_description" => push_violation(armed, "C20.result_description", &sig, detail),
                        "metamorphic_trim" => push_violation(armed, "C20.metamorphic_trim", &sig, detail),
                        _ => push_violation(armed, "C20.result_file", &sig, detail),
                    }
                }
                // C08 view of the same read
                if let Some(w) = reads.iter().rev().find(|r| r.res.is_ok()) {
                    let (bytes, expect) = w.res.as_ref().ok().unwrap();
                    let mut fu = false;
                    for (k, s, d) in check_expect(expect, bytes, &res, &mut fu) {
                        c08_finding(armed, k, &s, format!("via resolve of {tzv:?}, read {:?}: {d}", w.path));
                    }
                }
                // C07 allocation bound over the bytes the reader returned
                // input size = what the reader delivered + the TZ value + the candidate paths built from it
                let delivered: usize = reads.iter().map(|r| r.res.as_ref().map_or(0, |(b, _)| b.len())).sum::<usize>() + tzv.len() + reads.iter().map(|r| r.path.len()).sum::<usize>();
                let bound = 4 * delivered + 4096 + 256 * reads.len();
                if m.peak > bound as isize {
                    push_violation(armed, "C07.alloc_bound", "resolve", format!("resolving {tzv:?} peaked at {} bytes of heap for {delivered} delivered bytes (bound {bound})", m.peak));
                }
            });
            if let Res::Panic(p) = &res {
                panicked = Some(p.clone());
            }
            // store: the very value the library returned moves into the slot, together with the list of
            // heap blocks the library allocated for it
            harness(|| drop(res));
            let kept: isize = m.blocks.as_ref().map_or(0, |b| b.iter().map(|x| x.1 as isize).sum());
            let recorded = m.blocks.is_some();
            // what is not kept is released here, outside any harness section: it is the library's memory
            let zone_opt = match r {
                Ok(Ok(z)) => Some(z),
                other => {
                    drop(other);
                    None
                }
            };
            let stored = harness(|| {
                zone_opt.map(|z| {
                    let prov = match reads.iter().rev().find(|r| r.res.is_ok()) {
                        Some(w) => Prov::Bytes(w.res.as_ref().ok().unwrap().0.clone()),
                        None => Prov::Desc(Arc::new(oracle_trim(&tzv))),
                    };
                    SlotVal { zone: z, prov, blocks: Arc::new(m.blocks.clone().unwrap_or_default()) }
                })
            });
            if recorded {
                retained = Some((m.retained() - if stored.is_some() { kept } else { 0 }, "resolve"));
            }
            harness(|| {
                st.slots[slot % NSLOTS] = stored;
                if let Some(rec) = rec.as_mut() {
                    rec.reads = reads;
                    rec.dirs = dirv.iter().map(|s| s.to_string()).collect();
                }
            });
        }
        Op::Decode { cid, fault, slot } => {
            let base = lock().as_ref().and_then(|w| w.contents.get(*cid).cloned());
            let delivered = base.and_then(|b| match fault {
                None => Some((b.bytes.clone(), b.expect.clone(), false)),
                Some(f) => {
                    let contents = lock().as_ref().map(|w| w.contents.clone()).unwrap_or_default();
                    apply_fault(&contents, &b, None, f).ok()
                }
            });
            match delivered {
                None => out.push_str("skip(no content)"),
                Some((bytes, expect, fired)) => {
                    if fired {
                        if let (Some(f), Some(w)) = (fault, lock().as_mut()) {
                            w.stats.fault(f.kind());
                        }
                    }
                    let (r, m) = measured_full(false, true, true, || TimeZone::from_tz_data(&bytes));
                    if let Some((k, n, what)) = &m.ambient {
                        harness(|| push_violation(armed, "C15.ambient_read", &crate::seam::KINDS[*k].replace(' ', "-"), format!("decoding asked the operating system for the {} {n} time(s) (last: {what:?})", crate::seam::KINDS[*k])));
                    }
                    if CLOCK_READS.with(|c| !c.borrow().is_empty()) {
                        harness(|| push_violation(armed, "C15.ambient_read", "clock-read-by-an-operation-that-is-given-its-instant", "decoding read the (simulated) system clock".into()));
                    }
                    if let Some((off, old, new)) = m.static_write {
                        harness(|| push_violation(armed, "C15.static_write", "static-data-written", format!("decoding changed process-global state ({}: {old:#04x} -> {new:#04x})", crate::statics::describe(off))));
                    }
                    let out_before = out.len();
                    let res = harness(|| match &r {
                        Ok(rr) => {
                            match rr {
                                Ok(z) => {
                                    out.push_str("Ok(");
                                    canon::zone(&mut out, z.as_ref());
                                    out.push(')');
                                }
                                Err(e) => canon::tzerr(&mut out, e),
                            }
                            Res::of_tz(rr)
                        }
                        Err(p) => {
                            let _ = write!(out, "PANIC({p})");
                            Res::Panic(p.clone())
                        }
                    });
                    let first_rendering: String = harness(|| out[out_before..].to_string());
                    let first_panicked = matches!(res, Res::Panic(_));
                    harness(|| {
                        let mut fu = false;
                        for (k, s, d) in check_expect(&expect, &bytes, &res, &mut fu) {
                            c08_finding(armed, k, &s, format!("decode of content {cid} ({} bytes, fault {}): {d}", bytes.len(), fault.as_ref().map_or("none".into(), |f| f.text())));
                        }
                        if fu {
                            probe("footer_not_understood_by_reference");
                        }
                        match (&expect, &res) {
                            (Expect::Zone(_), Res::Ok(_)) => probe("decode_generated_ok"),
                            (Expect::CorpusOk, Res::Ok(_)) => probe("decode_corpus_ok"),
                            (Expect::WellFormed, _) => probe("decode_wellformed_by_model_only"),
                            (Expect::Reject(_), Res::ErrTz(_)) => probe("decode_malformed_refused"),
                            (Expect::Unknown, Res::Ok(_)) => probe("decode_untyped_corruption_accepted"),
                            (Expect::Unknown, Res::ErrTz(_)) => probe("decode_untyped_corruption_refused"),
                            _ => {}
                        }
                        let bound = 4 * bytes.len() + 4096;
                        if m.peak > bound as isize {
                            push_violation(armed, "C07.alloc_bound", "decode", format!("decoding {} bytes peaked at {} bytes of heap (bound {bound}); largest single request {}", bytes.len(), m.peak, m.max_req));
                        }
                    });
                    if let Res::Panic(p) = &res {
                        panicked = Some(p.clone());
                    }
                    harness(|| drop(res));
                    let kept: isize = m.blocks.as_ref().map_or(0, |b| b.iter().map(|x| x.1 as isize).sum());
                    let recorded = m.blocks.is_some();
                    let zone_opt = match r {
                        Ok(Ok(z)) => Some(z),
                        other => {
                            drop(other);
                            None
                        }
                    };
                    let stored = harness(|| zone_opt.map(|z| SlotVal { zone: z, prov: Prov::Bytes(bytes.clone()), blocks: Arc::new(m.blocks.clone().unwrap_or_default()) }));
                    if recorded {
                        retained = Some((m.retained() - if stored.is_some() { kept } else { 0 }, "decode"));
                    }
                    harness(|| st.slots[slot % NSLOTS] = stored);
                    // twin call: the same bytes decoded again at once, on the same thread, must give the same
                    // answer (a result that depends on a randomised hash seed, an address or a counter does not)
                    if armed.c15 && !first_panicked {
                        let (r2, _m2) = measured(false, || TimeZone::from_tz_data(&bytes));
                        harness(|| {
                            let mut s2 = String::new();
                            match &r2 {
                                Ok(Ok(z)) => {
                                    s2.push_str("Ok(");
                                    canon::zone(&mut s2, z.as_ref());
                                    s2.push(')');
                                }
                                Ok(Err(e)) => canon::tzerr(&mut s2, e),
                                Err(p) => {
                                    let _ = write!(s2, "PANIC({p})");
                                }
                            }
                            if s2 != first_rendering {
                                push_violation(armed, "C15.alone_vs_concurrent", "same-bytes-decoded-twice-differ", format!("op #{opi} {}: decoding the same {} bytes twice in a row on one thread gave {} and then {}", op.text(), bytes.len(), canon::short(&first_rendering), canon::short(&s2)));
                            }
                        });
                        drop(r2);
                        probe("decode_twin_call");
                    }
                    harness(|| drop(first_rendering));
                }
            }
        }
        Op::Lookup { z, .. } | Op::FromTs { z, .. } | Op::FromTotal { z, .. } | Op::Find { z, .. } | Op::Format { z, .. } | Op::Now { z } | Op::Current { z } | Op::Boundary { z, .. } => {
            let h = handle(st, z);
            if let (Some(rec), Some((_, p))) = (rec.as_mut(), h.as_ref()) {
                rec.zprov = p.clone();
            }
            let q = eval_query(op, h.as_ref().map(|x| &x.0), None, None, clock_now, &mut out);
            drop(h);
            finish_query(armed, op, &q, &mut retained, &mut panicked);
        }
        Op::UtcNow => {
            let q = eval_query(op, None, None, None, clock_now, &mut out);
            finish_query(armed, op, &q, &mut retained, &mut panicked);
        }
        Op::Project { z, to, .. } => {
            let h = handle(st, z);
            let t = handle(st, to);
            if let Some(rec) = rec.as_mut() {
                rec.zprov = h.as_ref().and_then(|x| x.1.clone());
                rec.toprov = t.as_ref().and_then(|x| x.1.clone());
            }
            let q = eval_query(op, h.as_ref().map(|x| &x.0), t.as_ref().map(|x| &x.0), None, clock_now, &mut out);
            drop(h);
            drop(t);
            finish_query(armed, op, &q, &mut retained, &mut panicked);
        }
        Op::UtcProject { to, .. } => {
            let t = handle(st, to);
            if let Some(rec) = rec.as_mut() {
                rec.toprov = t.as_ref().and_then(|x| x.1.clone());
            }
            let q = eval_query(op, None, t.as_ref().map(|x| &x.0), None, clock_now, &mut out);
            drop(t);
            finish_query(armed, op, &q, &mut retained, &mut panicked);
        }
        Op::FindN { z, buf, .. } | Op::FindAt { z, buf, .. } => {
            // the buffer is taken out of the actor state so that the zone may borrow the state
            let mut b = std::mem::take(&mut st.bufs[buf % NBUFS]);
            if let Some(rec) = rec.as_mut() {
                rec.buf_before = Some(b.clone());
            }
            let h = handle(st, z);
            if let (Some(rec), Some((_, p))) = (rec.as_mut(), h.as_ref()) {
                rec.zprov = p.clone();
            }
            let q = eval_query(op, h.as_ref().map(|x| &x.0), None, Some(&mut b), clock_now, &mut out);
            drop(h);
            st.bufs[buf % NBUFS] = b;
            finish_query(armed, op, &q, &mut retained, &mut panicked);
        }
        Op::Resize { buf, n } => {
            st.bufs[buf % NBUFS].resize(*n, None);
            let _ = write!(out, "resized({n})");
        }
        Op::Share { slot, pool } => {
            let v = st.slots[slot % NSLOTS].as_ref().map(|s| {
                alloc::record_start();
                let a = Arc::new(s.zone.clone());
                let b = alloc::record_take().unwrap_or_default();
                (a, s.prov.clone(), Arc::new(b))
            });
            let some = v.is_some();
            if let Some(s) = shared().as_mut() {
                if some {
                    s.pool[pool % NPOOL] = v;
                }
            }
            let _ = write!(out, "shared({some})");
            if some {
                probe("zone_shared_between_threads");
            }
        }
        Op::CloneZ { z, slot } => {
            let v = handle(st, z).and_then(|(h, p)| match (h.tz(), p) {
                (Some(t), Some(p)) => {
                    alloc::record_start();
                    let zc = t.clone();
                    let b = alloc::record_take().unwrap_or_default();
                    Some(SlotVal { zone: zc, prov: p, blocks: Arc::new(b) })
                }
                _ => None,
            });
            let _ = write!(out, "cloned({})", v.is_some());
            if v.is_some() {
                st.slots[slot % NSLOTS] = v;
            }
        }
        Op::DropSlot { slot } => {
            st.slots[slot % NSLOTS] = None;
            out.push_str("dropped");
        }
        Op::Construct { kind, args } if kind == "ambient_tz" || kind == "ambient_local" => {
            // real-filesystem operations (fixed list, not part of the seeded search): the hard-wired
            // default settings must behave exactly like explicit settings with the default directories
            // and a recording std::fs::read, and the recorded opens must satisfy the reference resolver
            let v = ambient_value(args);
            let v: &str = &v;
            let local = kind == "ambient_local";
            AMBIENT_READS.with(|r| r.borrow_mut().clear());
            let seam0 = crate::seam::snapshot();
            let (a, _m) = measured(false, || if local { TimeZone::local() } else { TimeZone::from_posix_tz(v) });
            // the default settings may read the environment and the file system - that is their job - but have no
            // business with the standard streams or with file locks (both shared with every other thread and process)
            let seam1 = crate::seam::snapshot();
            for k in [5usize, 6] {
                if seam1[k] != seam0[k] {
                    harness(|| push_violation(armed, "C15.ambient_read", &crate::seam::KINDS[k].replace(' ', "-"), format!("TZ {v:?} through the default settings used the {} {} time(s)", crate::seam::KINDS[k], seam1[k] - seam0[k])));
                }
            }
            let default_reads = AMBIENT_READS.with(|r| r.borrow().len());
            let (b, _m) = measured(false, || {
                let s = TimeZoneSettings::new(TimeZoneSettings::DEFAULT_DIRECTORIES, ambient_read);
                if local {
                    s.parse_local()
                } else {
                    s.parse_posix_tz(v)
                }
            });
            let reads: Vec<ReadRec> = AMBIENT_READS.with(|r| std::mem::take(&mut *r.borrow_mut()));
            match (&a, &b) {
                (Ok(a), Ok(b)) => {
                    let (ra, rb) = (Res::of(a), Res::of(b));
                    let same = match (&ra, &rb) {
                        (Res::Ok(x), Res::Ok(y)) => x == y,
                        // same machine, same file, same moment: the text of the I/O error must agree as well
                        (Res::ErrIo, Res::ErrIo) => match (a, b) {
                            (Err(x), Err(y)) => x.to_string() == y.to_string(),
                            _ => true,
                        },
                        (Res::ErrTz(x), Res::ErrTz(y)) => x == y,
                        _ => false,
                    };
                    let _ = write!(out, "ambient({v:?},{}) default={:016x} explicit={:016x}", local, crate::prng::fnv(ra.brief().as_bytes()), crate::prng::fnv(rb.brief().as_bytes()));
                    if !same {
                        push_violation(armed, "C15.env", "default-settings-differ", format!("TZ {v:?}: TimeZone::{} gives {} but explicit settings with the default directories and std::fs::read give {} (TZ={:?} TZDIR={:?})", if local { "local()" } else { "from_posix_tz" }, ra.brief(), rb.brief(), std::env::var("TZ").ok(), std::env::var("TZDIR").ok()));
                        push_violation(armed, "C20.result_file", "default-settings-differ", format!("TZ {v:?}: TimeZone::{} gives {} but TimeZoneSettings::new(DEFAULT_DIRECTORIES, std::fs::read) gives {}", if local { "local()" } else { "from_posix_tz" }, ra.brief(), rb.brief()));
                    }
                    if default_reads != 0 {
                        push_violation(armed, "HARNESS.ambient", "harness", "the default reader went through the recording reader".into());
                    }
                    let dirs: Vec<&str> = TimeZoneSettings::DEFAULT_DIRECTORIES.to_vec();
                    let chk = check_resolve(&TzArg::Lit(v.to_string()), local, &dirs, &reads, &rb);
                    for (kind, sig, detail) in chk.findings {
                        let oracle = match kind {
                            "open_history" => "C20.open_history",
                            "result_description" => "C20.result_description",
                            "metamorphic_trim" => "C20.metamorphic_trim",
                            "panic" => "C07.panic",
                            _ => "C20.result_file",
                        };
                        push_violation(armed, oracle, &format!("ambient-{sig}"), format!("real filesystem: {detail}"));
                    }
                    probe("ambient_real_filesystem_operation");
                }
                _ => {
                    let p = LAST_PANIC.with(|p| p.borrow().clone());
                    let _ = write!(out, "PANIC({p})");
                    panicked = Some(p);
                }
            }
        }
        Op::Construct { kind, args } => {
            let (r, _m) = measured(false, || crate::construct::run(kind, args));
            match r {
                Ok(s) => {
                    if let Some(i) = s.find("C07VALUE[") {
                        harness(|| push_violation(armed, "C07.error_value", "out-of-range-accepted", format!("constructor workload {kind} {args:?}: {}", &s[i..])));
                    }
                    out.push_str(&s)
                }
                Err(p) => {
                    let _ = write!(out, "PANIC({p})");
                    panicked = Some(p);
                }
            }
        }
        // ---- installer
        Op::Install { path, cid } => {
            if let Some(w) = lock().as_mut() {
                let prev = w.files.get(path).map(|f| f.cid);
                w.files.insert(path.clone(), FileState { cid: *cid, prev, perm: None, upgrade: None });
                w.ev(0, format!("world install {path:?} c{cid}"));
            }
            out.push_str("installed");
        }
        Op::Remove { path } => {
            if let Some(w) = lock().as_mut() {
                let was = w.files.remove(path).is_some();
                w.ev(0, format!("world remove {path:?} {was}"));
            }
            out.push_str("removed");
        }
        Op::Chmod { path, err } => {
            if let Some(w) = lock().as_mut() {
                if let Some(f) = w.files.get_mut(path) {
                    f.perm = err.clone();
                }
                w.ev(0, format!("world chmod {path:?} {:?}", err.as_ref().map(|e| e.text())));
            }
            out.push_str("chmod");
        }
        Op::BeginUpgrade { path, cid, cut } => {
            if let Some(w) = lock().as_mut() {
                match w.files.get_mut(path) {
                    Some(f) => f.upgrade = Some((*cid, *cut)),
                    None => {
                        // creating a new file non-atomically: readers see the first `cut` bytes
                        let empty = w.contents.len();
                        w.contents.push(RContent { bytes: Arc::new(Vec::new()), expect: Expect::Reject("truncation".into()) });
                        w.files.insert(path.clone(), FileState { cid: empty, prev: None, perm: None, upgrade: Some((*cid, *cut)) });
                    }
                }
                w.ev(0, format!("world begin_upgrade {path:?} c{cid} cut={cut}"));
            }
            out.push_str("upgrading");
        }
        Op::EndUpgrade { path } => {
            if let Some(w) = lock().as_mut() {
                if let Some(f) = w.files.get_mut(path) {
                    if let Some((newc, _)) = f.upgrade.take() {
                        f.prev = Some(f.cid);
                        f.cid = newc;
                    }
                }
                w.ev(0, format!("world end_upgrade {path:?}"));
            }
            out.push_str("upgraded");
        }
        Op::AtomicReplace { path, cid } => {
            if let Some(w) = lock().as_mut() {
                let prev = w.files.get(path).map(|f| f.cid);
                w.files.insert(path.clone(), FileState { cid: *cid, prev, perm: None, upgrade: None });
                w.ev(0, format!("world atomic_replace {path:?} c{cid}"));
            }
            out.push_str("replaced");
        }
        // ---- real files, replaced atomically, read through the default reader with a scheduling point at every
        //      file-system request (a reader that checks and then uses can be overtaken there)
        Op::LiveInstall { name, cid } => {
            let bytes = lock().as_ref().and_then(|w| w.contents.get(*cid).map(|c| c.bytes.clone()));
            if let (Some(b), true) = (bytes, live_name_ok(name)) {
                let ok = harness(|| {
                    let dir = crate::world::live_dir();
                    let _ = std::fs::create_dir_all(&dir);
                    let tmp = format!("{dir}/.{name}.tmp");
                    std::fs::write(&tmp, &b[..]).and_then(|_| std::fs::rename(&tmp, format!("{dir}/{name}"))).is_ok()
                });
                if ok {
                    if let Some(w) = lock().as_mut() {
                        w.live_hist.entry(name.clone()).or_default().push(*cid);
                        w.stats.fault("live_atomic_replace");
                        w.ev(0, format!("world live_install {name:?} c{cid}"));
                    }
                }
                let _ = write!(out, "live_installed({ok})");
            } else {
                out.push_str("skip");
            }
        }
        Op::LiveRead { name } => {
            if live_name_ok(name) {
                let path = harness(|| format!(":{}/{name}", crate::world::live_dir()));
                let before = lock().as_ref().map_or(0, |w| w.live_hist.get(name).map_or(0, |h| h.len()));
                crate::world::LIVE_CALL.with(|c| c.set(true));
                let (r, _m) = measured(false, || TimeZone::from_posix_tz(&path));
                crate::world::LIVE_CALL.with(|c| c.set(false));
                harness(|| {
                    // what the call may legitimately have seen: the version current when it started and every
                    // version installed while it ran (replacement is atomic: never a mixture, never a prefix)
                    let (allowed, contents): (Vec<usize>, Vec<Arc<Vec<u8>>>) = match lock().as_ref() {
                        Some(w) => {
                            let h = w.live_hist.get(name).cloned().unwrap_or_default();
                            let from = before.saturating_sub(1);
                            let a: Vec<usize> = h[from.min(h.len())..].to_vec();
                            let c = a.iter().filter_map(|i| w.contents.get(*i).map(|c| c.bytes.clone())).collect();
                            (a, c)
                        }
                        None => (vec![], vec![]),
                    };
                    let mut got = String::new();
                    match &r {
                        Ok(Ok(z)) => {
                            got.push_str("Ok(");
                            canon::zone(&mut got, z.as_ref());
                            got.push(')');
                        }
                        Ok(Err(e)) => canon::err(&mut got, e),
                        Err(p) => {
                            let _ = write!(got, "PANIC({p})");
                            panicked = Some(p.clone());
                        }
                    }
                    let mut expected: Vec<String> = Vec::new();
                    for b in &contents {
                        let mut e = String::new();
                        match catch_unwind(AssertUnwindSafe(|| TimeZone::from_tz_data(&b[..]))) {
                            Ok(Ok(z)) => {
                                e.push_str("Ok(");
                                canon::zone(&mut e, z.as_ref());
                                e.push(')');
                            }
                            Ok(Err(t)) => canon::err(&mut e, &tz::Error::from(t)),
                            Err(_) => e.push_str("PANIC"),
                        }
                        expected.push(e);
                    }
                    let missing_ok = before == 0;
                    let fine = expected.iter().any(|e| *e == got) || (missing_ok && matches!(&r, Ok(Err(tz::Error::Io(_))))) || panicked.is_some();
                    if !fine {
                        push_violation(armed, "C15.alone_vs_concurrent", "atomically-replaced-file-read-torn", format!("op #{opi} {}: the file was replaced atomically (contents {:?} were current during the call), but the default reader returned {} - neither version", op.text(), allowed, canon::short(&got)));
                    }
                    let _ = write!(out, "live({})", crate::prng::fnv(got.as_bytes()) % 1000);
                    probe("live_file_read");
                    if allowed.len() > 1 {
                        probe("live_file_replaced_during_read");
                    }
                });
                drop(r);
            } else {
                out.push_str("skip");
            }
        }
        // ---- environment
        Op::SetEnv { key, val } => {
            if env_key_ok(key) && !val.contains('\0') {
                // "@CORPUS/..." names a real directory of the vendored tree (a decoy zoneinfo tree for TZDIR)
                let val = match val.strip_prefix("@CORPUS") {
                    Some(rest) => format!("{}{rest}", std::env::var("TZSIM_CORPUS").unwrap_or_else(|_| "/verif/corpus".into())),
                    None => val.clone(),
                };
                if key == "CWD" {
                    // pseudo-variable: the process's current working directory
                    let _ = HOME_DIR.get_or_init(|| std::env::current_dir().unwrap_or_else(|_| "/".into()));
                    let _ = std::env::set_current_dir(&val);
                } else if key == "DECOYS" {
                    for k in DECOY_VARS {
                        std::env::set_var(k, &val);
                    }
                } else {
                    std::env::set_var(key, &val);
                }
                if let Some(w) = lock().as_mut() {
                    w.stats.fault("env_flip");
                    w.ev(0, format!("world setenv {key} {val:?}"));
                }
            }
            out.push_str("setenv");
        }
        Op::UnsetEnv { key } => {
            if env_key_ok(key) && key != "CWD" {
                if key == "DECOYS" {
                    for k in DECOY_VARS {
                        std::env::remove_var(k);
                    }
                } else {
                    std::env::remove_var(key);
                }
                if let Some(w) = lock().as_mut() {
                    w.stats.fault("env_flip");
                    w.ev(0, format!("world unsetenv {key}"));
                }
            }
            out.push_str("unsetenv");
        }
        Op::ClockAdvance { ns } => {
            if let Some(w) = lock().as_mut() {
                w.clock = w.clock.saturating_add(*ns);
                if *ns > 0 {
                    w.stats.clock_advance_ns = w.stats.clock_advance_ns.saturating_add(*ns as u128);
                }
                w.stats.fault("clock_advance");
                w.ev(0, format!("world clock_advance {ns}"));
            }
            out.push_str("advanced");
        }
        Op::ClockJump { to } => {
            if let Some(w) = lock().as_mut() {
                if *to < w.clock {
                    w.stats.fault("clock_jump_backward");
                } else {
                    w.stats.fault("clock_jump_forward");
                }
                if *to < 0 {
                    w.stats.probe("clock_before_epoch");
                }
                w.clock = *to;
                w.ev(0, format!("world clock_jump {to}"));
            }
            out.push_str("jumped");
        }
    }

    // ---- common post-processing
    if let Some(p) = &panicked {
        push_violation(armed, "C07.panic", "panic", format!("op #{opi} {} panicked: {p}", op.text()));
    }
    if let Some((r, what)) = retained {
        if r != 0 && panicked.is_none() {
            push_violation(armed, "C15.retained_heap", what, format!("op #{opi} {}: {r} bytes of heap still held on the calling thread after the call returned and its result was dropped", op.text()));
        }
    }
    {
        let short = canon::short(&out);
        state_class(op.name(), &out);
        let mut g = lock();
        if let Some(w) = g.as_mut() {
            w.ev(1, format!("a{me} return #{opi} {}", short));
        }
    }
    if let Some(mut rec) = rec {
        rec.canon = out.clone();
        rec.clock = CLOCK_READS.with(|c| c.borrow().first().copied());
        if let Some(s) = shared().as_mut() {
            s.records.push(rec);
        }
    }
    st.canon = out;
}

fn live_name_ok(n: &str) -> bool {
    !n.is_empty() && n.len() <= 16 && n.bytes().all(|b| b.is_ascii_alphanumeric())
}

fn env_key_ok(k: &str) -> bool {
    matches!(k, "TZ" | "TZDIR" | "LANG" | "LC_ALL" | "LC_TIME" | "CWD" | "DECOYS")
}

/// Variables a time-zone library might be tempted to consult besides TZ (pseudo-variable DECOYS sets
/// them all at once to one value): whoever reads the environment block directly, without a libc call
/// the system-call seam could count, gives itself away by behaving differently.
pub const DECOY_VARS: &[&str] = &[
    "ZONEINFO", "TZDATA", "TZ_DIR", "ZONEINFO_DIR", "ZONEDIR", "TZPATH", "PYTHONTZPATH", "ANDROID_ROOT", "ANDROID_DATA", "ANDROID_TZDATA_ROOT",
    "ANDROID_I18N_ROOT", "HOME", "XDG_DATA_HOME", "XDG_DATA_DIRS", "XDG_CONFIG_HOME", "TMPDIR", "TEMP", "TMP", "PREFIX", "SYSROOT", "DESTDIR",
    "LOCALTIME", "ETC_LOCALTIME", "TZFILE", "TIMEZONE", "TIME_ZONE", "LANGUAGE", "LC_MESSAGES", "POSIXLY_CORRECT", "TZ_RS_DIR", "TZ_RS_ZONEINFO",
    "TZRS_DIR", "TZ_LOCALTIME", "TZ_EXTENSIONS", "TZ_STRICT", "NIX_TZDIR", "SNAP", "APPDIR", "CONDA_PREFIX", "VIRTUAL_ENV", "USERPROFILE", "SystemRoot",
    "windir", "TZDEFAULT", "TZDEFRULES", "TZDIR_OVERRIDE", "ZONEINFO_PATH", "TZ_DATA", "TZDATA_DIR", "ICU_TIMEZONE_FILES_DIR",
];

fn oracle_trim(s: &str) -> String {
    crate::oracle::trim_ascii_ws(s).to_string()
}

fn c08_finding(armed: &Armed, kind: &str, sig: &str, detail: String) {
    match kind {
        "fidelity" => push_violation(armed, "C08.fidelity", sig, detail),
        "reject" => {
            let oracle = if sig == "truncation" {
                "C08.truncation"
            } else {
                "C08.typed"
            };
            push_violation(armed, oracle, sig, detail)
        }
        "reference_decoder" => push_violation(armed, "C08.reference_decoder", sig, detail),
        "panic" => push_violation(armed, "C07.panic", sig, detail),
        _ => {}
    }
}

fn finish_query(armed: &Armed, op: &Op, q: &QueryOut, retained: &mut Option<(isize, &'static str)>, panicked: &mut Option<String>) {
    // first: the retained-heap reading, before any harness bookkeeping allocates
    if let Some(m) = &q.meas {
        *retained = Some((m.retained(), "query"));
    }
    for p in &q.probes {
        probe(p);
    }
    for (o, s, d) in &q.findings {
        push_violation(armed, o, s, d.clone());
    }
    if let Some(p) = &q.panicked {
        *panicked = Some(p.clone());
    }
    if let Some(m) = &q.meas {
        if q.noalloc_surface && m.forbid_hits > 0 {
            let d = format!("{} allocated {} time(s) on the no-alloc surface (largest request {} bytes)", op.text(), m.forbid_hits, m.max_req);
            push_violation(armed, "C19.no_alloc", op.name(), d.clone());
            if matches!(op, Op::FindN { .. }) {
                push_violation(armed, "C17.no_alloc", "findn", d);
            }
        }
    }
}

// ------------------------------------------------------------------ whole-scenario execution

static HOME_DIR: std::sync::OnceLock<std::path::PathBuf> = std::sync::OnceLock::new();

fn reset_env() {
    for k in ["TZ", "TZDIR", "LANG", "LC_ALL", "LC_TIME"].iter().chain(DECOY_VARS.iter()) {
        std::env::remove_var(k);
    }
    // the working directory is process-global state too
    let home = HOME_DIR.get_or_init(|| std::env::current_dir().unwrap_or_else(|_| "/".into()));
    let _ = std::env::set_current_dir(home);
}

pub fn execute(sc: &Scenario, corpus: &mut Corpus, armed: Armed, opts: &ExecOpts) -> Outcome {
    reset_env();
    if sc.actors.iter().any(|a| a.ops.iter().any(|o| matches!(o, Op::LiveInstall { .. } | Op::LiveRead { .. }))) {
        let _ = std::fs::remove_dir_all(crate::world::live_dir());
    }
    let contents = resolve_contents(sc, corpus);
    let mut files = BTreeMap::new();
    for f in &sc.files {
        files.insert(f.path.clone(), FileState { cid: f.cid, prev: f.prev, perm: f.perm.clone(), upgrade: None });
    }
    let n = sc.actors.len();
    let threaded = n > 1;
    {
        let mut g = lock();
        *g = Some(World {
            files,
            contents,
            faults: sc.faults.clone(),
            read_seq: 0,
            clock: sc.clock,
            events: Vec::new(),
            sched_h: 0xcbf2_9ce4_8422_2325,
            result_h: 0xcbf2_9ce4_8422_2325,
            threaded,
            // nobody runs until every actor thread has been spawned (spawning touches runtime statics)
            current: if threaded { usize::MAX - 1 } else { 0 },
            alive: vec![true; n],
            in_resolve: vec![false; n.max(1)],
            sched: sc.sched.clone(),
            sched_pos: 0,
            stats: RunStats::default(),
            violations: Vec::new(),
            log_events: opts.log_events,
            arrived: 0,
            live_hist: BTreeMap::new(),
        });
    }
    *shared() = Some(Shared { pool: (0..NPOOL).map(|_| None).collect(), records: Vec::new() });
    let ctx = Ctx { sc, armed, record: armed.c15 || opts.cold, dirs_all: sc.dirs.iter().map(|s| s.as_str()).collect() };
    let mut last_canon = String::new();

    if !threaded {
        ME.with(|m| m.set(0));
        let mut st = ActorState::new();
        if let Some(a) = sc.actors.first() {
            for (i, op) in a.ops.iter().enumerate() {
                run_op_guarded(&ctx, 0, &mut st, i, op);
            }
        }
        last_canon = st.canon.clone();
    } else {
        std::thread::scope(|s| {
            let mut hs = Vec::new();
            for (ai, a) in sc.actors.iter().enumerate() {
                let ctx = &ctx;
                hs.push(s.spawn(move || {
                    ME.with(|m| m.set(ai));
                    let mut st = ActorState::new();
                    wait_turn(ai);
                    for (i, op) in a.ops.iter().enumerate() {
                        yield_point(ai, "op");
                        run_op_guarded(ctx, ai, &mut st, i, op);
                    }
                    // drop zones while still holding the baton (deterministic order of frees)
                    drop(st);
                    finish(ai);
                }));
            }
            // all spawned and through their runtime start-up (which touches process-global runtime
            // state): release the first actor
            {
                let mut g = lock();
                while g.as_ref().map_or(false, |w| w.arrived < n) {
                    g = CV.wait(g).unwrap_or_else(|e| e.into_inner());
                }
                if let Some(w) = g.as_mut() {
                    w.current = 0;
                }
                CVS[0].notify_one();
            }
            for h in hs {
                if h.join().is_err() {
                    let mut g = lock();
                    if let Some(w) = g.as_mut() {
                        w.violate("HARNESS.thread_panic", "harness", "an actor thread of the harness panicked outside a library call".into());
                    }
                }
            }
        });
    }

    // ---- epilogue: every recorded operation again, alone, in reverse order, on fresh private copies
    if let Some(w) = lock().as_mut() {
        w.threaded = false;
    }
    reset_env();
    let records = shared().as_mut().map(|s| std::mem::take(&mut s.records)).unwrap_or_default();
    if armed.c15 {
        ME.with(|m| m.set(0));
        for rec in records.iter().rev() {
            if let Some((canon, diverged)) = alone_in_process(rec) {
                if let Some(d) = diverged {
                    push_violation(&armed, "C15.alone_vs_concurrent", "alone-open-history", format!("a{} op #{} {}: {d}", rec.actor, rec.opi, rec.op.text()));
                } else if canon != rec.canon {
                    push_violation(
                        &armed,
                        "C15.alone_vs_concurrent",
                        "alone-result-differs",
                        format!("a{} op #{} {}: concurrent run returned {} but the same call alone returns {}", rec.actor, rec.opi, rec.op.text(), canon::short(&rec.canon), canon::short(&canon)),
                    );
                }
            }
        }
    }
    if opts.cold && armed.c15 {
        for rec in records.iter() {
            if let Some(mini) = mini_scenario(sc, rec) {
                match cold_child(&opts.exe, &mini) {
                    Ok(canon) => {
                        if let Some(w) = lock().as_mut() {
                            w.stats.probe("cold_child_evaluations");
                        }
                        if canon != rec.canon {
                            push_violation(
                                &armed,
                                "C15.alone_vs_concurrent",
                                "cold-result-differs",
                                format!("a{} op #{} {}: concurrent run returned {} but a fresh process running only this call returns {}", rec.actor, rec.opi, rec.op.text(), canon::short(&rec.canon), canon::short(&canon)),
                            );
                        }
                    }
                    Err(e) => {
                        if let Some(w) = lock().as_mut() {
                            w.violate("HARNESS.cold_child", "harness", e);
                        }
                    }
                }
            }
        }
    }

    *shared() = None;
    let w = lock().take().unwrap();
    let nontrivial = w.stats.reads > 0 || w.stats.switches > 0 || !w.stats.faults.is_empty() || w.stats.ops > 1;
    Outcome { events: w.events, sched_digest: w.sched_h, result_digest: w.result_h, violations: w.violations, stats: w.stats, last_canon, nontrivial }
}

fn rebuild(p: &Prov) -> Option<TimeZone> {
    match p {
        Prov::Bytes(b) => TimeZone::from_tz_data(b).ok(),
        Prov::Desc(s) => TimeZoneSettings::new(&[], empty_read).parse_posix_tz(s).ok(),
    }
}

/// Re-execute one recorded operation alone on the current thread. Returns (canon, read divergence).
fn alone_in_process(rec: &OpRec) -> Option<(String, Option<String>)> {
    let mut out = String::new();
    match &rec.op {
        Op::Resolve { .. } | Op::ResolveLocal { .. } => {
            let dirv: Vec<&str> = rec.dirs.iter().map(|s| s.as_str()).collect();
            REPLAY.with(|r| *r.borrow_mut() = Some(ReplayReader { recs: rec.reads.clone(), pos: 0, diverged: None }));
            let r = catch_unwind(AssertUnwindSafe(|| {
                let settings = TimeZoneSettings::new(&dirv, sim_read);
                match &rec.op {
                    Op::Resolve { tz, .. } => settings.parse_posix_tz(&tz.value()),
                    _ => settings.parse_local(),
                }
            }));
            let rr = REPLAY.with(|r| r.borrow_mut().take()).unwrap();
            let mut div = rr.diverged;
            if div.is_none() && rr.pos != rr.recs.len() {
                div = Some(format!("alone run made {} reads, concurrent run made {}", rr.pos, rr.recs.len()));
            }
            match &r {
                Ok(Ok(z)) => {
                    out.push_str("Ok(");
                    canon::zone(&mut out, z.as_ref());
                    out.push(')');
                }
                Ok(Err(e)) => canon::err(&mut out, e),
                Err(_) => {
                    let _ = write!(out, "PANIC({})", LAST_PANIC.with(|p| p.borrow().clone()));
                }
            }
            Some((out, div))
        }
        Op::Lookup { .. } | Op::FromTs { .. } | Op::FromTotal { .. } | Op::Find { .. } | Op::Format { .. } | Op::Now { .. } | Op::Current { .. } | Op::UtcNow | Op::Project { .. } | Op::UtcProject { .. } | Op::FindN { .. } | Op::FindAt { .. } => {
            let needs_z = !matches!(rec.op, Op::UtcNow | Op::UtcProject { .. });
            let zref = match &rec.op {
                Op::Lookup { z, .. } | Op::FromTs { z, .. } | Op::FromTotal { z, .. } | Op::Find { z, .. } | Op::Format { z, .. } | Op::Now { z } | Op::Current { z } | Op::Project { z, .. } | Op::FindN { z, .. } | Op::FindAt { z, .. } => Some(z.clone()),
                _ => None,
            };
            let toref = match &rec.op {
                Op::Project { to, .. } | Op::UtcProject { to, .. } => Some(to.clone()),
                _ => None,
            };
            let zfresh = rec.zprov.as_ref().and_then(rebuild);
            let tofresh = rec.toprov.as_ref().and_then(rebuild);
            let zh = match (&zref, &zfresh) {
                (Some(ZRef::U), _) => Some(ZH::Konst(TimeZoneRef::utc())),
                (Some(ZRef::K(k)), _) => Some(ZH::Konst(kzone(*k))),
                (Some(_), Some(z)) => Some(ZH::Owned(z, Arc::new(Vec::new()))),
                _ => None,
            };
            let toh = match (&toref, &tofresh) {
                (Some(ZRef::U), _) => Some(ZH::Konst(TimeZoneRef::utc())),
                (Some(ZRef::K(k)), _) => Some(ZH::Konst(kzone(*k))),
                (Some(_), Some(z)) => Some(ZH::Owned(z, Arc::new(Vec::new()))),
                _ => None,
            };
            if needs_z && zh.is_none() && rec.canon.starts_with("skip") {
                return None;
            }
            let mut buf = rec.buf_before.clone();
            REPLAY_CLOCK.with(|c| c.set(rec.clock));
            CLOCK_READS.with(|c| c.borrow_mut().clear());
            let _q = eval_query(&rec.op, zh.as_ref(), toh.as_ref(), buf.as_mut(), rec.clock.unwrap_or(0), &mut out);
            REPLAY_CLOCK.with(|c| c.set(None));
            Some((out, None))
        }
        Op::Construct { kind, args } if kind == "ambient_tz" || kind == "ambient_local" => {
            // environment and working directory are back at their baseline here: the answer must not move
            let v = ambient_value(args);
            let v: &str = &v;
            let local = kind == "ambient_local";
            let a = catch_unwind(AssertUnwindSafe(|| if local { TimeZone::local() } else { TimeZone::from_posix_tz(v) }));
            let b = catch_unwind(AssertUnwindSafe(|| {
                let s = TimeZoneSettings::new(TimeZoneSettings::DEFAULT_DIRECTORIES, ambient_read);
                if local {
                    s.parse_local()
                } else {
                    s.parse_posix_tz(v)
                }
            }));
            AMBIENT_READS.with(|r| r.borrow_mut().clear());
            match (&a, &b) {
                (Ok(a), Ok(b)) => {
                    let _ = write!(out, "ambient({v:?},{}) default={:016x} explicit={:016x}", local, crate::prng::fnv(Res::of(a).brief().as_bytes()), crate::prng::fnv(Res::of(b).brief().as_bytes()));
                }
                _ => out.push_str("PANIC"),
            }
            Some((out, None))
        }
        _ => None,
    }
}

/// A single-actor scenario that performs exactly one recorded operation (for cold children).
fn mini_scenario(sc: &Scenario, rec: &OpRec) -> Option<Scenario> {
    let mut m = Scenario::empty("C15", "cold", sc.seed);
    m.clock = rec.clock.unwrap_or(sc.clock);
    let mut ops = Vec::new();
    let mut place = |m: &mut Scenario, ops: &mut Vec<Op>, p: &Option<Prov>, slot: usize| -> bool {
        match p {
            Some(Prov::Bytes(b)) => {
                m.contents.push(Content::Hex(b.to_vec()));
                ops.push(Op::Decode { cid: m.contents.len() - 1, fault: None, slot });
                true
            }
            Some(Prov::Desc(s)) => {
                ops.push(Op::Resolve { tz: TzArg::Lit(s.to_string()), dirs: vec![], slot });
                true
            }
            None => false,
        }
    };
    let fix = |z: &ZRef, slot: usize| match z {
        ZRef::P(_) | ZRef::S(_) => ZRef::P(slot),
        other => other.clone(),
    };
    match &rec.op {
        Op::Resolve { tz, dirs, slot } => {
            m.dirs = sc.dirs.clone();
            for (i, r) in rec.reads.iter().enumerate() {
                match &r.res {
                    Err(k) => {
                        m.faults.insert(i as u32, Fault::Err(k.clone()));
                    }
                    Ok((b, _)) => {
                        m.contents.push(Content::Hex(b.to_vec()));
                        m.files.push(crate::scn::FileInit { path: r.path.clone(), cid: m.contents.len() - 1, prev: None, perm: None });
                    }
                }
            }
            ops.push(Op::Resolve { tz: tz.clone(), dirs: dirs.clone(), slot: *slot });
        }
        Op::ResolveLocal { dirs, slot } => {
            m.dirs = sc.dirs.clone();
            for (i, r) in rec.reads.iter().enumerate() {
                match &r.res {
                    Err(k) => {
                        m.faults.insert(i as u32, Fault::Err(k.clone()));
                    }
                    Ok((b, _)) => {
                        m.contents.push(Content::Hex(b.to_vec()));
                        m.files.push(crate::scn::FileInit { path: r.path.clone(), cid: m.contents.len() - 1, prev: None, perm: None });
                    }
                }
            }
            ops.push(Op::ResolveLocal { dirs: dirs.clone(), slot: *slot });
        }
        Op::Lookup { z, t } => {
            if matches!(z, ZRef::P(_) | ZRef::S(_)) && !place(&mut m, &mut ops, &rec.zprov, 0) {
                return None;
            }
            ops.push(Op::Lookup { z: fix(z, 0), t: *t });
        }
        Op::FromTs { z, t, ns } => {
            if matches!(z, ZRef::P(_) | ZRef::S(_)) && !place(&mut m, &mut ops, &rec.zprov, 0) {
                return None;
            }
            ops.push(Op::FromTs { z: fix(z, 0), t: *t, ns: *ns });
        }
        Op::FromTotal { z, n } => {
            if matches!(z, ZRef::P(_) | ZRef::S(_)) && !place(&mut m, &mut ops, &rec.zprov, 0) {
                return None;
            }
            ops.push(Op::FromTotal { z: fix(z, 0), n: *n });
        }
        Op::Find { z, f } => {
            if matches!(z, ZRef::P(_) | ZRef::S(_)) && !place(&mut m, &mut ops, &rec.zprov, 0) {
                return None;
            }
            ops.push(Op::Find { z: fix(z, 0), f: *f });
        }
        Op::Format { z, t, ns } => {
            if matches!(z, ZRef::P(_) | ZRef::S(_)) && !place(&mut m, &mut ops, &rec.zprov, 0) {
                return None;
            }
            ops.push(Op::Format { z: fix(z, 0), t: *t, ns: *ns });
        }
        Op::Now { z } => {
            if matches!(z, ZRef::P(_) | ZRef::S(_)) && !place(&mut m, &mut ops, &rec.zprov, 0) {
                return None;
            }
            ops.push(Op::Now { z: fix(z, 0) });
        }
        Op::Current { z } => {
            if matches!(z, ZRef::P(_) | ZRef::S(_)) && !place(&mut m, &mut ops, &rec.zprov, 0) {
                return None;
            }
            ops.push(Op::Current { z: fix(z, 0) });
        }
        Op::UtcNow => ops.push(Op::UtcNow),
        Op::Project { z, t, ns, to } => {
            if matches!(z, ZRef::P(_) | ZRef::S(_)) && !place(&mut m, &mut ops, &rec.zprov, 0) {
                return None;
            }
            if matches!(to, ZRef::P(_) | ZRef::S(_)) && !place(&mut m, &mut ops, &rec.toprov, 1) {
                return None;
            }
            ops.push(Op::Project { z: fix(z, 0), t: *t, ns: *ns, to: fix(to, 1) });
        }
        Op::UtcProject { t, ns, to } => {
            if matches!(to, ZRef::P(_) | ZRef::S(_)) && !place(&mut m, &mut ops, &rec.toprov, 1) {
                return None;
            }
            ops.push(Op::UtcProject { t: *t, ns: *ns, to: fix(to, 1) });
        }
        _ => return None,
    }
    if rec.canon.starts_with("skip") {
        return None;
    }
    m.actors.push(crate::scn::Actor { kind: "client".into(), ops });
    Some(m)
}

fn cold_child(exe: &str, mini: &Scenario) -> Result<String, String> {
    use std::io::Write;
    use std::process::{Command, Stdio};
    let mut child = Command::new(exe).arg("alone").stdin(Stdio::piped()).stdout(Stdio::piped()).stderr(Stdio::null()).spawn().map_err(|e| format!("cannot spawn cold child: {e}"))?;
    child.stdin.take().unwrap().write_all(mini.text().as_bytes()).map_err(|e| format!("cold child stdin: {e}"))?;
    let o = child.wait_with_output().map_err(|e| format!("cold child: {e}"))?;
    if !o.status.success() {
        return Err(format!("cold child exited with {:?}", o.status));
    }
    Ok(String::from_utf8_lossy(&o.stdout).trim_end_matches('\n').to_string())
}
