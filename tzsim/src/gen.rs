//! Scenario generators: pure functions of one integer seed.

use crate::prng::Rng;
use crate::scn::*;
use crate::spec::*;
use crate::tzif::TYPED_KINDS;
use tz::datetime::UtcDateTime;

pub const DIR_POOL: &[&str] = &["/usr/share/zoneinfo", "/share/zoneinfo", "/etc/zoneinfo", "/d3", "zi", "/opt/tz/zoneinfo",
    // directories whose joined paths a "tidy" implementation would spell differently: the candidate is always dir + "/" + name, literally
    "/", "", "/d4/", ".", "//d5", "zi/", "/d3/."];
pub const CORPUS_PICKS: &[&str] = &[
    "Europe/Paris",
    "America/New_York",
    "Australia/Lord_Howe",
    "Africa/Casablanca",
    "Asia/Tokyo",
    "America/Nuuk",
    "Europe/Dublin",
    "Antarctica/Troll",
    "Asia/Gaza",
    "Pacific/Chatham",
    "right/Europe/London",
    "right/UTC",
    "Etc/GMT+12",
    "Factory",
    "America/Santiago",
    "Asia/Kathmandu",
    "UTC",
    "EST5EDT",
    "America/Chicago",
    "America/Denver",
    "America/Los_Angeles",
    "Australia/Sydney",
    "Australia/Adelaide",
];

/// every vendored path (for picking real zones beyond the curated list)
const CORPUS_INDEX: &str = include_str!("../../corpus/INDEX.txt");

/// A real zone: half of the time from the curated list, otherwise any of the 1243 vendored paths.
pub fn corpus_pick(r: &mut Rng) -> String {
    if r.chance(1, 2) {
        return r.pick(CORPUS_PICKS).to_string();
    }
    let n = CORPUS_INDEX.lines().count();
    CORPUS_INDEX.lines().nth(r.usize(n.max(1))).unwrap_or("UTC").to_string()
}

const ALNUM: &[u8] = b"ABCDEFGHIJKLMNOPQRSTUVWXYZabcdefghijklmnopqrstuvwxyz0123456789+-";
const ALPHA: &[u8] = b"ABCDEFGHIJKLMNOPQRSTUVWXYZabcdefghijklmnopqrstuvwxyz";

fn desig(r: &mut Rng, tag: Option<u32>) -> Vec<u8> {
    let len = 3 + r.usize(5);
    let alpha_only = r.chance(2, 3);
    let mut d: Vec<u8> = (0..len).map(|_| if alpha_only { *r.pick(ALPHA) } else { *r.pick(ALNUM) }).collect();
    if let Some(t) = tag {
        // unique tag: two trailing characters derived from the tag
        let n = d.len();
        d[n - 1] = b'0' + (t % 10) as u8;
        d[n - 2] = b'A' + ((t / 10) % 26) as u8;
    }
    d
}

const OFFSETS_EXTRA: &[i32] = &[65536, -65536, 131072, 32768, -32768, 256, -256, 16777216, 65535, -65537];
const OFFSETS: &[i32] = &[0, 1, -1, 59, -59, 3600, -3600, 7200, -7200, 1800, 5400, 12600, 19800, 20700, 34200, 36000, 39600, 43200, 45900, 46800, 50400, -18000, -14400, -21600, -25200, -28800, -34200, -36000, -39600, -43200, 86400, -86400, 93599, -89999];

fn offset(r: &mut Rng) -> i32 {
    match r.below(20) {
        0 => i32::MAX,
        1 => i32::MIN + 1,
        2 => r.range(-100_000, 100_000) as i32,
        3 => *r.pick(OFFSETS_EXTRA),
        _ => *r.pick(OFFSETS),
    }
}

fn day_spec_any(r: &mut Rng) -> DaySpec {
    // out-of-range fields included (must be refused, never panic)
    match r.below(4) {
        0 => DaySpec::M(r.below(15) as u8, r.below(8) as u8, r.below(9) as u8),
        1 => DaySpec::M(1 + r.below(12) as u8, [0u8, 6, 1, 5][r.usize(4)], [0u8, 7, 6][r.usize(3)]),
        2 => DaySpec::J1([0u16, 366, 365, 1, 999][r.usize(5)]),
        _ => DaySpec::J0([366u16, 365, 0, 999][r.usize(4)]),
    }
}

fn day_spec(r: &mut Rng) -> DaySpec {
    if r.chance(1, 6) {
        // the days around the end of February and the ends of the ranges
        return match r.below(12) {
            0 => DaySpec::J1(59),
            1 => DaySpec::J1(60),
            2 => DaySpec::J1(365),
            3 => DaySpec::J1(1),
            4 => DaySpec::J0(0),
            5 => DaySpec::J0(58),
            6 => DaySpec::J0(59),
            7 => DaySpec::J0(60),
            8 => DaySpec::J0(365),
            9 => DaySpec::M(2, 5, r.below(7) as u8),
            10 => DaySpec::M(2, 4, r.below(7) as u8),
            _ => DaySpec::M(12, 5, r.below(7) as u8),
        };
    }
    match r.below(10) {
        0..=5 => DaySpec::M(1 + r.below(12) as u8, 1 + r.below(5) as u8, r.below(7) as u8),
        6 | 7 => DaySpec::J1(1 + r.below(365) as u16),
        _ => DaySpec::J0(r.below(366) as u16),
    }
}

fn rule_time(r: &mut Rng, extended: bool) -> i32 {
    if extended {
        match r.below(6) {
            0 => -3600,
            1 => 25 * 3600,
            2 => -(167 * 3600 + 59 * 60 + 59),
            3 => 167 * 3600 + 59 * 60 + 59,
            4 => r.range(-167 * 3600, 167 * 3600) as i32,
            _ => r.range(-26, 50) as i32 * 3600,
        }
    } else {
        match r.below(6) {
            0 => 7200,
            1 => 0,
            2 => 24 * 3600,
            3 => 24 * 3600 + 59 * 60 + 59,
            4 => r.range(0, 24 * 3600) as i32,
            _ => r.range(0, 24) as i32 * 3600,
        }
    }
}

/// A rule spec. `want_valid`: retry until the public constructors accept it.
pub fn gen_rule(r: &mut Rng, extended: bool, want_valid: bool, tag: Option<u32>) -> RuleSpec {
    for _ in 0..40 {
        let spec = if r.chance(1, 4) {
            let off = match r.below(8) {
                0 => 24 * 3600 + 59 * 60 + 59,
                1 => -(24 * 3600 + 59 * 60 + 59),
                _ => *r.pick(&OFFSETS[..30]),
            };
            RuleSpec::Fixed { off, desig: desig(r, tag) }
        } else {
            let std_off = match r.below(10) {
                0 => 24 * 3600 + 59 * 60 + 59,
                1 => -(24 * 3600 + 59 * 60 + 59),
                _ => *r.pick(&OFFSETS[5..30]),
            };
            let dst_off = match r.below(6) {
                0 => std_off.saturating_add(1800),
                1 => std_off.saturating_sub(3600),
                2 => std_off.saturating_add(7200),
                _ => std_off.saturating_add(3600),
            };
            let (start, end) = if !want_valid && r.chance(1, 2) {
                // same month, neighbouring weeks / week days, possibly out of range
                let a = day_spec_any(r);
                let b = match (&a, r.below(3)) {
                    (DaySpec::M(m, _, d), 0) => DaySpec::M(*m, r.below(7) as u8, d.wrapping_add(1) % 8),
                    _ => day_spec_any(r),
                };
                (a, b)
            } else if r.chance(1, 8) {
                // neighbouring days of the year (the two changes come within hours of each other every year)
                let n = 1 + r.below(364) as u16;
                let a = if r.chance(1, 2) { DaySpec::J1(n) } else { DaySpec::J0(n) };
                let m = (n as i64 + r.range(-1, 1)).clamp(1, 365) as u16;
                let b = if r.chance(1, 2) { DaySpec::J1(m) } else { DaySpec::J0(m) };
                (a, b)
            } else {
                (day_spec(r), day_spec(r))
            };
            RuleSpec::Alt { std_off, std_desig: desig(r, tag), dst_off, dst_desig: desig(r, tag.map(|t| t + 1000)), start, start_time: rule_time(r, extended), end, end_time: rule_time(r, extended) }
        };
        if !spec.printable() {
            continue;
        }
        // (a rule that alternates cleanly through 400 years is valid whatever the library's constructor says)
        if !want_valid || spec.build().is_some() || (spec.parts_build() && crate::refmodel::rule_clearly_consistent(&spec) == Some(true)) {
            return spec;
        }
    }
    RuleSpec::Fixed { off: 3600, desig: b"CET".to_vec() }
}

fn time_mixture(r: &mut Rng) -> i64 {
    match r.below(14) {
        12 => [i64::MAX, i64::MAX - 1, i64::MAX - 2, i64::MAX - 27][r.usize(4)],
        13 => [i64::MIN, i64::MIN + 1, i64::MIN + 2, i64::MIN + 27][r.usize(4)],
        0 => r.range(-1000, 1000),
        1 => (1i64 << 31) + r.range(-1000, 1000),
        2 => -(1i64 << 31) + r.range(-1000, 1000),
        3 => (1i64 << 62) + r.range(-1000, 1000),
        4 => -(1i64 << 62) + r.range(-1000, 1000),
        5 => i64::MIN + 1 + r.range(0, 1000),
        6 => i64::MAX - r.range(0, 1000),
        7 => 67767976233532799 - r.range(0, 100_000),
        8 => -67768100567971200 + r.range(0, 100_000),
        _ => r.range(-3_000_000_000, 5_000_000_000),
    }
}

#[derive(Clone, Copy)]
pub struct ZoneOpts {
    pub tag: Option<u32>,
    /// transitions closer together than offset differences (for overlapping gaps and folds)
    pub dense: bool,
    pub allow_invalid: bool,
    pub allow_huge: bool,
    pub i32_times: bool,
}

pub fn gen_zone(r: &mut Rng, o: ZoneOpts) -> ZoneSpec {
    let ntypes = match r.below(30) {
        0 if o.allow_huge => [40 + r.usize(160), 254, 255, 256, 200][r.usize(5)],
        1 | 2 => 1,
        _ => 1 + r.usize(7),
    };
    // normally a dozen names; with many types sometimes ~40 distinct ones, so that the string table
    // grows past 256 octets (indices stay <= 255, the last names straddle the 256 boundary)
    let npool = if ntypes > 36 && r.chance(1, 2) { 36 + r.usize(9) } else { 12 };
    let pool_desigs: Vec<Vec<u8>> = (0..ntypes.min(npool)).map(|i| {
        let mut d = desig(r, o.tag.map(|t| t + 37 * i as u32));
        if npool > 12 {
            // make them pairwise distinct and long
            while d.len() < 6 {
                d.push(b'A' + (i % 26) as u8);
            }
            d[0] = b'A' + (i % 26) as u8;
            d[1] = b'a' + (i / 26) as u8;
        }
        d
    }).collect();
    let mut types = Vec::new();
    let cluster = offset(r);
    for i in 0..ntypes {
        let off = if o.dense || r.chance(1, 2) { cluster.saturating_add(r.range(-3, 3) as i32 * if o.dense { 1800 } else { 3600 }) } else { offset(r) };
        let mut d = pool_desigs[i % pool_desigs.len()].clone();
        if ntypes > pool_desigs.len() && i >= pool_desigs.len() {
            // many types share a few designations
        } else if r.chance(1, 25) {
            d.clear(); // empty designation (index of a NUL)
        } else if i > 0 && r.chance(1, 8) {
            // a suffix of an earlier designation (shares bytes in the string table)
            let e = &types[r.usize(types.len())];
            let e: &TypeSpec = e;
            if e.desig.len() > 3 {
                d = e.desig[e.desig.len() - 3..].to_vec();
            }
        }
        if o.allow_invalid && r.chance(1, 60) {
            d = match r.below(4) {
                0 => b"AB".to_vec(),
                1 => b"ABCDEFGH".to_vec(),
                2 => b"A_C".to_vec(),
                _ => vec![0xC3, 0x89, b'T', b'E'],
            };
        }
        let isstd = r.chance(1, 2);
        let isut = isstd && r.chance(1, 2);
        types.push(TypeSpec { off: if o.allow_invalid && r.chance(1, 200) { i32::MIN } else { off }, dst: r.chance(1, 3), desig: d, isstd, isut });
    }
    if o.allow_invalid && r.chance(1, 80) {
        let k = r.usize(types.len());
        types[k].isstd = false;
        types[k].isut = true;
    }

    // transitions
    let ntrans = match r.below(30) {
        0 if o.allow_huge => 500 + r.usize(1500),
        1..=3 => 0,
        4..=10 => 1 + r.usize(3),
        _ => 1 + r.usize(40),
    };
    let mut trans: Vec<(i64, u8)> = Vec::new();
    if ntrans > 0 {
        let mut t = if o.i32_times { r.range(-2_000_000_000, 1_000_000_000) } else { time_mixture(r) };
        for _ in 0..ntrans {
            trans.push((t, r.usize(ntypes) as u8));
            let step = if o.dense {
                1 + r.range(0, 7200)
            } else {
                match r.below(6) {
                    0 => 1,
                    1 => 1 + r.range(0, 3600),
                    2 => 86400 * (1 + r.range(0, 400)),
                    _ => 1 + r.range(0, 40_000_000),
                }
            };
            match t.checked_add(step) {
                Some(n) if !o.i32_times || n < i32::MAX as i64 => t = n,
                _ => break,
            }
        }
    }
    if !o.i32_times && !trans.is_empty() && r.chance(1, 12) {
        // a first transition at one of the values tools use as placeholders ("Big Bang" -2^59, the minimum,
        // -2^62, the 32-bit minimum): it is a transition like any other
        let v = [-(1i64 << 59), -(1i64 << 59) + 1, -(1i64 << 59) - 1, i64::MIN, i64::MIN + 1, -(1i64 << 62), i32::MIN as i64, i32::MIN as i64 - 1, -(1i64 << 31) * 2][r.usize(9)];
        if trans.len() == 1 || v < trans[1].0 {
            trans[0].0 = v;
        }
    }
    if r.chance(1, 10) && trans.len() > ntypes {
        // equal counts (timecnt == typecnt): what a decoder that mixes two counts up cannot notice otherwise
        trans.truncate(ntypes);
    }
    if o.allow_invalid && trans.len() >= 2 && r.chance(1, 80) {
        let k = r.usize(trans.len() - 1);
        trans[k + 1].0 = trans[k].0;
    }
    if o.allow_invalid && !trans.is_empty() && r.chance(1, 80) && ntypes < 255 {
        let k = r.usize(trans.len());
        trans[k].1 = ntypes as u8;
    }

    // leap seconds
    let mut leaps: Vec<(i64, i32)> = Vec::new();
    if r.chance(1, 4) {
        let n = 1 + r.usize(if o.allow_huge { 300 } else { 6 });
        let mut t = if o.i32_times { r.range(0, 500_000_000) } else { r.range(0, 2_000_000_000) };
        let mut c: i32 = 0;
        for _ in 0..n {
            c += if r.chance(1, 3) { -1 } else { 1 };
            if leaps.is_empty() && c.abs() != 1 {
                c = 1;
            }
            leaps.push((t, c));
            let gap = if r.chance(1, 4) { 2419199 } else { 2419199 + r.range(0, 100_000_000) };
            t = match t.checked_add(gap) {
                Some(x) if !o.i32_times || x < i32::MAX as i64 => x,
                _ => break,
            };
        }
        if o.allow_invalid && r.chance(1, 20) {
            match r.below(6) {
                0 => leaps[0].1 = 2,
                1 => leaps[0].0 = -5,
                2 => leaps[0].1 = 0,
                3 => {
                    if leaps.len() > 1 {
                        leaps[1].0 = leaps[0].0;
                    }
                }
                4 => {
                    if leaps.len() > 1 {
                        let k = r.usize(leaps.len() - 1);
                        leaps[k + 1].1 = leaps[k].1;
                    }
                }
                _ => {
                    if leaps.len() > 1 {
                        leaps[1].0 = leaps[0].0 + 100;
                    }
                }
            }
        }
        // a pair of transitions exactly at a leap record and one second later (ties between results)
        if !trans.is_empty() && r.chance(1, 4) && ntypes >= 2 {
            let (lt, _) = leaps[r.usize(leaps.len())];
            let base = trans.last().unwrap().0;
            if lt > base.saturating_add(1) {
                trans.push((lt, r.usize(ntypes) as u8));
                trans.push((lt + 1, r.usize(ntypes) as u8));
            }
        } else
        // some transitions right at / around leap records
        if !trans.is_empty() && r.chance(1, 2) {
            let (lt, _) = leaps[r.usize(leaps.len())];
            let base = trans.last().unwrap().0;
            if lt > base {
                trans.push((lt + r.range(-1, 1), r.usize(ntypes) as u8));
            }
        }
    }

    // extreme last transition next to a leap table (the leap conversion of the last transition is
    // what the constructor evaluates)
    if !leaps.is_empty() && !o.i32_times && r.chance(1, 6) {
        let t = [i64::MAX, i64::MAX - 1, i64::MAX - 2, i64::MIN + 1, i64::MAX - 30][r.usize(5)];
        if trans.last().map_or(true, |(l, _)| *l < t) {
            trans.push((t, r.usize(ntypes) as u8));
        } else if trans.first().map_or(false, |(f, _)| *f > t) {
            trans.insert(0, (t, r.usize(ntypes) as u8));
        }
    }

    // version and rule
    let fits32 = trans.iter().all(|(t, _)| *t >= i32::MIN as i64 && *t <= i32::MAX as i64) && leaps.iter().all(|(t, _)| *t >= i32::MIN as i64 && *t <= i32::MAX as i64);
    let mut version = if fits32 && r.chance(1, 4) { 1 } else if r.chance(1, 2) { 2 } else { 3 };
    let mut rule = None;
    let mut style = 0u8;
    if version >= 2 && r.chance(2, 3) {
        let extended = r.chance(1, 3);
        let want = !(o.allow_invalid && r.chance(1, 20));
        let rs = gen_rule(r, extended, want, o.tag);
        style = gen_style(r);
        if rs.needs_extensions_styled(style) && !(o.allow_invalid && r.chance(1, 10)) {
            version = 3;
        }
        rule = Some(rs);
    }
    let mut z = ZoneSpec { version, types, trans, leaps, rule, rule_style: style, desig_mode: (r.below(2) | if r.chance(1, 6) { 4 } else { 0 } | if r.chance(1, 300) { 2 } else { 0 }) as u8, indicators: r.below(4) as u8, decoy: if r.chance(1, 2) { 0 } else { 1 + r.next() % 1_000_000 } };

    // sometimes move the last transition right next to an instant at which the rule changes
    // (where a mistake in evaluating the consistency requirement shows), leap seconds included
    if let (Some(rule), Some(&(lt, _))) = (z.rule.clone(), z.trans.last()) {
        if r.chance(1, 3) && lt.unsigned_abs() < 40_000_000_000_000_000 {
            let prev = if z.trans.len() >= 2 { z.trans[z.trans.len() - 2].0 } else { i64::MIN };
            let evs = crate::refmodel::rule_events_near(&rule, lt.max(prev.saturating_add(86400 * 400)).max(-2_000_000_000));
            if !evs.is_empty() {
                let e = evs[r.usize(evs.len())];
                let maxc = z.leaps.iter().map(|(_, c)| c.unsigned_abs() as i64).max().unwrap_or(0);
                let d = [0i64, 1, -1, 2, -2, maxc, -maxc, maxc + 1, -(maxc + 1), 3600, -3600][r.usize(11)];
                let t = crate::refmodel::unix_to_leap(&z.leaps, e.saturating_add(d));
                if t > prev {
                    let n = z.trans.len();
                    z.trans[n - 1].0 = t;
                    // sometimes a leap record sits exactly on (or one second around) that last transition
                    if t > 2_500_000 && r.chance(1, 4) {
                        let at = t + [0i64, 0, 0, 1, -1][r.usize(5)];
                        z.leaps.retain(|(lt, _)| *lt <= at - 2_419_199);
                        let pc = z.leaps.last().map_or(0, |(_, c)| *c);
                        z.leaps.push((at, if r.chance(2, 3) { pc + 1 } else { pc - 1 }));
                        if z.version == 1 && at > i32::MAX as i64 {
                            z.leaps.pop();
                        }
                    }
                }
            }
        }
    }

    // make the last transition agree with the rule (a well-formed file does)
    let well = |z: &ZoneSpec| crate::refmodel::independently_valid(z).unwrap_or_else(|| z.valid());
    if z.rule.is_some() && !z.trans.is_empty() && !well(&z) {
        let cands: Vec<TypeSpec> = match z.rule.as_ref().unwrap() {
            RuleSpec::Fixed { off, desig } => vec![TypeSpec { off: *off, dst: false, desig: desig.clone(), isstd: false, isut: false }],
            RuleSpec::Alt { std_off, std_desig, dst_off, dst_desig, .. } => {
                vec![TypeSpec { off: *std_off, dst: false, desig: std_desig.clone(), isstd: false, isut: false }, TypeSpec { off: *dst_off, dst: true, desig: dst_desig.clone(), isstd: false, isut: false }]
            }
        };
        let mut fixed = false;
        if z.types.len() + cands.len() <= 256 {
            let base = z.types.len();
            z.types.extend(cands.iter().cloned());
            let last = z.trans.len() - 1;
            for k in 0..cands.len() {
                z.trans[last].1 = (base + k) as u8;
                if well(&z) {
                    fixed = true;
                    break;
                }
            }
        }
        if !fixed && !(o.allow_invalid && r.chance(1, 4)) {
            // keep the file well-formed: drop the rule
            z.rule = None;
        }
    }
    // near miss: a last transition type that differs from what the rule says in one small way
    // (a violating file that must be refused)
    if o.allow_invalid && z.rule.is_some() && !z.trans.is_empty() && r.chance(1, 12) {
        let k = z.trans.last().unwrap().1 as usize;
        if k < z.types.len() {
            let t = &mut z.types[k];
            match r.below(4) {
                0 => {
                    if let Some(c) = t.desig.iter_mut().find(|c| c.is_ascii_alphabetic()) {
                        *c ^= 0x20; // same letters, different case
                    }
                }
                1 => t.off = t.off.saturating_add(if r.chance(1, 2) { 1 } else { -1 }),
                2 => t.dst = !t.dst,
                _ => {
                    if t.desig.len() > 3 {
                        t.desig.pop();
                    } else {
                        t.desig.push(b'X');
                    }
                }
            }
        }
    }
    if !z.representable() {
        // fall back to something small and representable
        z.desig_mode = 0;
        if !z.representable() {
            z.types.truncate(8);
            for t in z.trans.iter_mut() {
                t.1 %= z.types.len() as u8;
            }
            if !z.representable() {
                z.rule = None;
            }
        }
    }
    z
}

/// Local-time fields of instant `t` shifted by `off` seconds (generator-side helper).
pub fn fields_at(t: i64, off: i64, ns: u32) -> Option<Fields> {
    let tt = t.checked_add(off)?;
    let u = std::panic::catch_unwind(|| UtcDateTime::from_timespec(tt, ns).ok()).ok().flatten()?;
    Some(Fields { y: u.year(), mo: u.month(), d: u.month_day(), h: u.hour(), mi: u.minute(), s: u.second(), ns })
}

fn random_fields(r: &mut Rng) -> Fields {
    if r.chance(1, 8) {
        // corner dates, also in the first and last representable years
        let y = match r.below(6) {
            0 => i32::MAX,
            1 => i32::MIN,
            2 => i32::MAX - 1,
            3 => [2000, 1900, 2100, 2024, 0, -1, 400][r.usize(7)],
            _ => r.range(1900, 2100) as i32,
        };
        let (mo, d, h, mi, s) = [(12u8, 31u8, 23u8, 59u8, 60u8), (12, 31, 23, 59, 59), (1, 1, 0, 0, 0), (2, 29, 12, 0, 0), (2, 28, 23, 59, 60), (6, 30, 23, 59, 60), (3, 1, 0, 0, 0), (12, 31, 0, 0, 0), (1, 1, 23, 59, 60)][r.usize(9)];
        return Fields { y, mo, d, h, mi, s, ns: [0u32, 999_999_999, 1][r.usize(3)] };
    }
    let y = match r.below(10) {
        0 => i32::MAX - r.below(3) as i32,
        1 => i32::MIN + r.below(3) as i32,
        2 => r.range(-10000, 10000) as i32,
        _ => r.range(1900, 2100) as i32,
    };
    Fields { y, mo: if r.chance(1, 20) { r.below(14) as u8 } else { 1 + r.below(12) as u8 }, d: if r.chance(1, 20) { r.below(33) as u8 } else { 1 + r.below(28) as u8 }, h: if r.chance(1, 30) { 24 } else { r.below(24) as u8 }, mi: r.below(60) as u8, s: if r.chance(1, 10) { 60 } else { r.below(60) as u8 }, ns: if r.chance(1, 30) { 1_000_000_000 } else { r.below(1_000_000_000) as u32 } }
}

/// Fields that land near the zone's transitions / rule changes.
pub fn interesting_fields(r: &mut Rng, z: &ZoneSpec) -> Fields {
    if !z.trans.is_empty() && r.chance(3, 4) {
        let (t, _) = z.trans[r.usize(z.trans.len())];
        let off = z.types[r.usize(z.types.len())].off as i64;
        let delta = match r.below(5) {
            0 => 0,
            1 => -1,
            2 => r.range(-7200, 7200),
            3 => r.range(-100, 100),
            _ => r.range(-90000, 90000),
        };
        if let Some(f) = t.checked_add(delta).and_then(|x| fields_at(x, off, if r.chance(1, 2) { 0 } else { r.below(1_000_000_000) as u32 })) {
            return f;
        }
    }
    if let Some(RuleSpec::Alt { start, end, start_time, end_time, std_off, .. }) = &z.rule {
        // near the rule's change days in some year after the last transition
        let base_year = z.trans.last().and_then(|(t, _)| std::panic::catch_unwind(|| UtcDateTime::from_timespec(*t, 0).ok()).ok().flatten()).map(|u| u.year()).unwrap_or(2000);
        let y = base_year.saturating_add(r.range(0, 3) as i32);
        let (d, tm) = if r.chance(1, 2) { (start, start_time) } else { (end, end_time) };
        let (mo, day) = match d {
            DaySpec::M(m, w, _) => (*m, ((*w as i64 - 1) * 7 + 1 + r.range(0, 6)).min(28) as u8),
            DaySpec::J1(n) | DaySpec::J0(n) => (1 + (*n / 31).min(11) as u8, 1 + (*n % 28) as u8),
        };
        let secs = (*tm as i64 + r.range(-3700, 3700)).rem_euclid(86400);
        let _ = std_off;
        return Fields { y, mo: mo.clamp(1, 12), d: day.max(1), h: (secs / 3600) as u8, mi: ((secs / 60) % 60) as u8, s: (secs % 60) as u8, ns: 0 };
    }
    random_fields(r)
}

fn interesting_instant(r: &mut Rng, z: Option<&ZoneSpec>, small: &[i64]) -> i64 {
    if !small.is_empty() && r.chance(1, 2) {
        return *r.pick(small);
    }
    if let Some(z) = z {
        if !z.trans.is_empty() && r.chance(2, 3) {
            let (t, _) = z.trans[r.usize(z.trans.len())];
            return t.saturating_add(r.range(-2, 2));
        }
        if !z.leaps.is_empty() && r.chance(1, 2) {
            let (t, c) = z.leaps[r.usize(z.leaps.len())];
            return t.saturating_sub(c as i64).saturating_add(r.range(-2, 2));
        }
    }
    time_mixture(r)
}

fn sched(r: &mut Rng, n: usize, switch_permille: u64) -> Vec<u32> {
    (0..n).map(|_| if r.below(1000) < switch_permille { 1 + r.below(8) as u32 } else { 0 }).collect()
}

fn gen_fault(r: &mut Rng, ncontents: usize, errors_only: bool) -> Fault {
    let errs = ErrKind::ALL;
    if errors_only || r.chance(1, 2) {
        return Fault::Err(r.pick(errs).clone());
    }
    match r.below(9) {
        0 => Fault::Short(r.below(4000) as usize),
        1 => Fault::Empty,
        2 => Fault::ZeroTail(r.below(3000) as usize),
        3 => Fault::Torn(r.usize(ncontents.max(1)), r.below(3000) as usize),
        4 => Fault::Stale,
        5 => Fault::Flip((0..1 + r.below(4)).map(|_| r.next() % 1_000_000).collect()),
        6 => Fault::GarbageAppend(1 + r.below(9) as usize, [0u8, b'\n', 0xFF, b'X'][r.usize(4)]),
        7 => Fault::Scribble(0, r.next() % 1_000_000),
        _ => Fault::Typed(r.pick(TYPED_KINDS).to_string(), r.next() % 100_000),
    }
}

fn pad(r: &mut Rng, ascii_only: bool) -> String {
    let ws = [" ", "\t", "\n", "\r", "\x0C", "  ", " \t"];
    if !ascii_only && r.chance(1, 3) {
        return ["\u{A0}", "\u{2003}", " \u{A0}", "\u{A0} "][r.usize(4)].to_string();
    }
    ws[r.usize(ws.len())].to_string()
}

// ------------------------------------------------------------------ C20

const REL_NAMES: &[&str] = &["LOCALTIME", "Localtime", "Europe/Paris", "EST5EDT", "UTC0", "<+03>-3", "Zone7", "localtime", "posixrules", "a", "Etc/GMT+5", "CET-1CEST,M3.5.0,M10.5.0/3", "Europe", "UTC", " UTC0 ", "AAA3BBB,J10,J200", "a/../Zone7", "Europe//Paris", "x:y", "Zone7/", "0zone", "Zo\u{e9}/\u{fc}", "./UTC0", "ABCDEFGHIJKLMNOPQRSTUVWXYZabcdefghijklmnopqrstuvwxyzABCDEFGHIJKLMNOPQRSTUVWXYZabcdefghijklmnopqrstuvwxyzABCDEFGHIJKLMNOPQRSTUVWXYZabcdefghijklmnopqrstuvwxyzABCDEFGHIJKLMNOPQRSTUVWXYZabcdefghijklmnopqrstuvwxyz0123456789/long", "UTC0:", "EST5:30EDT"];
const ABS_NAMES: &[&str] = &["/abs/zone1", "/etc/localtime", "/usr/share/zoneinfo/Europe/Paris", "/abs/EST5EDT", "/"];

pub fn gen_contents_basic(r: &mut Rng, sc: &mut Scenario, n: usize, allow_invalid: bool) {
    for i in 0..n {
        if allow_invalid && r.chance(1, 40) {
            // a large junk file (size limits): must be read, refused as a file, and end the search
            sc.contents.push(Content::Fill { len: [1usize << 20, (1 << 20) + 1, 65536, 65537, 70000, 3 << 20][r.usize(6)], byte: [0u8, b'T', 0xFF][r.usize(3)] });
            continue;
        }
        let c = match r.below(10) {
            0 | 1 => Content::Corpus(corpus_pick(&mut *r)),
            2 if i > 0 => Content::Typed { base: r.usize(i), kind: r.pick(TYPED_KINDS).to_string(), arg: r.next() % 100_000 },
            3 if allow_invalid => {
                if r.chance(1, 2) {
                    // a text file holding a valid TZ description (not a TZif file: must be a decoding error wherever it is read)
                    let mut t = gen_rule(r, false, true, None).print(r.below(32) as u8).into_bytes();
                    if r.chance(1, 2) {
                        t.push(b'\n');
                    }
                    Content::Hex(t)
                } else {
                    Content::Hex((0..r.below(60)).map(|_| r.next() as u8).collect())
                }
            }
            _ => Content::Gen(gen_zone(r, ZoneOpts { tag: Some(i as u32 * 7 + 1), dense: false, allow_invalid, allow_huge: false, i32_times: false })),
        };
        sc.contents.push(c);
    }
}

/// length of a caller-provided search buffer: mostly around the usual result counts, sometimes far above
fn buflen(r: &mut Rng) -> usize {
    match r.below(24) {
        0 => 6 + r.usize(40),
        1 => [64usize, 127, 128, 255, 256, 257, 1000, 4096][r.usize(8)],
        _ => r.usize(6),
    }
}

/// printing style of a rule: the five layout bits, sometimes with explicitly signed rule times
pub fn gen_style(r: &mut Rng) -> u8 {
    let base = r.below(32) as u8;
    if r.chance(1, 6) {
        base | crate::spec::ST_TIME_SIGN | if r.chance(1, 2) { crate::spec::ST_NEG_ZERO } else { 0 }
    } else {
        base
    }
}

fn tz_value(r: &mut Rng, sc: &Scenario) -> TzArg {
    let rel = |r: &mut Rng| r.pick(REL_NAMES).to_string();
    match r.below(20) {
        0 => TzArg::Lit(String::new()),
        1 => TzArg::Lit("localtime".into()),
        2 => TzArg::Lit(":localtime".into()),
        3 => TzArg::Lit(":".into()),
        4 | 5 => TzArg::Lit(format!(":{}", rel(r))),
        6 => TzArg::Lit(r.pick(ABS_NAMES).to_string()),
        7 => TzArg::Lit(format!(":{}", r.pick(ABS_NAMES))),
        8 => {
            // padded relative name (must be looked up untrimmed)
            TzArg::Lit(format!("{}{}{}", pad(r, true), rel(r), pad(r, true)))
        }
        9 | 10 | 11 => {
            let ext = r.chance(1, 5);
            let want = !r.chance(1, 10);
            let spec = gen_rule(r, ext, want, None);
            let (lpad, rpad) = match r.below(4) {
                0 => (String::new(), String::new()),
                1 => (pad(r, true), String::new()),
                2 => (String::new(), pad(r, false)),
                _ => (pad(r, false), pad(r, true)),
            };
            TzArg::Desc { spec, style: gen_style(r), lpad, rpad }
        }
        14 => {
            // very long values (path-length limits), exactly around 4096 octets
            let n = [4095usize, 4096, 4097, 5000, 300, 70000][r.usize(6)];
            match r.below(4) {
                3 => TzArg::Lit(format!("{}{}", ":".repeat(n), ["", "UTC0", "Zone7"][r.usize(3)])),
                0 => TzArg::Lit("A".repeat(n)),
                1 => TzArg::Lit(format!("/{}", "b".repeat(n))),
                _ => TzArg::Lit(format!("UTC0{}", " ".repeat(n))),
            }
        }
        15 => TzArg::Lit(["Localtime", "LOCALTIME", "localTime", "LocalTime", ":LOCALTIME", "localtime\0", "LOCALTIME "][r.usize(7)].to_string()),
        12 => TzArg::Lit(["junk", "X", "12345", "\u{A0}UTC0", "UTC0\u{A0}", "  ", "\n", "localtime ", " localtime", " :UTC", "UTC+25", "A/../B"][r.usize(12)].to_string()),
        16 => {
            // more than one leading colon (exactly one is the marker; the rest belongs to the name), colon + blank
            match r.below(8) {
                0 => TzArg::Lit(format!("::{}", rel(r))),
                1 => TzArg::Lit(format!("::{}", r.pick(ABS_NAMES))),
                2 => TzArg::Lit("::".into()),
                3 => TzArg::Lit(":::".into()),
                4 => TzArg::Lit("::localtime".into()),
                5 => TzArg::Lit(format!(": {}", rel(r))),
                6 => TzArg::Lit(format!(":{} ", rel(r))),
                _ => TzArg::Lit(format!(" :{}", rel(r))),
            }
        }
        13 if !sc.files.is_empty() => {
            // some path that exists, verbatim
            TzArg::Lit(r.pick(&sc.files).path.clone())
        }
        _ => TzArg::Lit(rel(r)),
    }
}

pub fn gen_c20(seed: u64) -> Scenario {
    let mut r = Rng::new(seed);
    let mut sc = Scenario::empty("C20", "c20", seed);
    let ndirs = [0usize, 1, 2, 3, 3, 4][r.usize(6)];
    let mut pool: Vec<&str> = DIR_POOL.to_vec();
    for _ in 0..ndirs {
        let i = r.usize(pool.len());
        sc.dirs.push(pool.remove(i).to_string());
    }
    let ncont = 2 + r.usize(5);
    gen_contents_basic(&mut r, &mut sc, ncont, true);
    // files
    let density = [150u64, 400, 700][r.usize(3)];
    for d in sc.dirs.clone() {
        for name in REL_NAMES {
            if r.below(1000) < density / 2 {
                // the tidied spelling of the same candidate names another file (with other contents)
                let tidy = format!("{}/{name}", d.trim_end_matches('/').trim_end_matches("/.")).replace("//", "/");
                if tidy != format!("{d}/{name}") && r.chance(1, 2) {
                    sc.files.push(FileInit { path: tidy, cid: r.usize(ncont), prev: None, perm: None });
                }
                sc.files.push(FileInit { path: format!("{d}/{name}"), cid: r.usize(ncont), prev: if r.chance(1, 4) { Some(r.usize(ncont)) } else { None }, perm: if r.chance(1, 12) { Some([ErrKind::Eacces, ErrKind::Eio, ErrKind::Einval, ErrKind::KInvalidInput, ErrKind::Enotdir, ErrKind::Custom][r.usize(6)].clone()) } else { None } });
            }
        }
    }
    for name in ABS_NAMES {
        if *name != "/" && r.below(1000) < density {
            sc.files.push(FileInit { path: name.to_string(), cid: r.usize(ncont), prev: None, perm: if r.chance(1, 12) { Some(ErrKind::Eacces) } else { None } });
        }
    }
    // a relative-looking file outside every directory (must never be opened)
    if r.chance(1, 3) {
        sc.files.push(FileInit { path: "Europe/Paris".into(), cid: r.usize(ncont), prev: None, perm: None });
        sc.files.push(FileInit { path: "UTC0".into(), cid: r.usize(ncont), prev: None, perm: None });
    }
    sc.files.sort_by(|a, b| a.path.cmp(&b.path));
    sc.files.dedup_by(|a, b| a.path == b.path);

    let nclients = [1usize, 1, 2, 3][r.usize(4)];
    let mut total_ops = 0;
    for _ in 0..nclients {
        let nops = 1 + r.usize(8);
        let mut ops = Vec::new();
        for _ in 0..nops {
            let dirs: Vec<usize> = if r.chance(1, 6) {
                // a permutation / subset of the directory list, sometimes with a duplicate
                let mut d: Vec<usize> = (0..sc.dirs.len()).collect();
                for i in (1..d.len()).rev() {
                    d.swap(i, r.usize(i + 1));
                }
                d.truncate(r.usize(d.len() + 1));
                if !d.is_empty() && r.chance(1, 4) {
                    let x = d[r.usize(d.len())];
                    d.insert(r.usize(d.len() + 1), x);
                }
                d
            } else {
                (0..sc.dirs.len()).collect()
            };
            if r.chance(1, 40) {
                ops.push(Op::Construct { kind: if r.chance(1, 4) { "ambient_local".into() } else { "ambient_tz".into() }, args: vec![r.below(1000) as i64] });
            } else if r.chance(1, 12) {
                ops.push(Op::ResolveLocal { dirs, slot: r.usize(4) });
            } else {
                ops.push(Op::Resolve { tz: tz_value(&mut r, &sc), dirs, slot: r.usize(4) });
            }
        }
        if r.chance(1, 10) {
            let e = match r.below(4) {
                3 => Op::SetEnv { key: "DECOYS".into(), val: ["/d3", "/usr/share/zoneinfo", "/share/zoneinfo", "/etc/zoneinfo"][r.usize(4)].into() },
                0 => Op::SetEnv { key: "TZDIR".into(), val: "@CORPUS/right".into() },
                1 => Op::SetEnv { key: "TZ".into(), val: ["Asia/Tokyo", ":UTC", "EST5EDT", "junk"][r.usize(4)].into() },
                _ => Op::SetEnv { key: "TZDIR".into(), val: "/d3".into() },
            };
            ops.insert(r.usize(ops.len() + 1), e);
        }
        total_ops += ops.len();
        sc.actors.push(Actor { kind: "client".into(), ops });
    }
    // installer interleaved with the resolutions
    if r.chance(1, 2) {
        let mut ops = Vec::new();
        let paths: Vec<String> = {
            let mut p: Vec<String> = sc.files.iter().map(|f| f.path.clone()).collect();
            for d in &sc.dirs {
                p.push(format!("{d}/{}", r.pick(REL_NAMES)));
            }
            p.push("/etc/localtime".into());
            p
        };
        for _ in 0..1 + r.usize(6) {
            let path = r.pick(&paths).clone();
            ops.push(match r.below(7) {
                0 => Op::Install { path, cid: r.usize(ncont) },
                1 => Op::Remove { path },
                2 => Op::Chmod { path, err: if r.chance(1, 3) { None } else { Some([ErrKind::Eacces, ErrKind::Eacces, ErrKind::KInvalidInput, ErrKind::Eloop][r.usize(4)].clone()) } },
                3 => Op::BeginUpgrade { path, cid: r.usize(ncont), cut: r.below(3000) as usize },
                4 => Op::EndUpgrade { path },
                _ => Op::AtomicReplace { path, cid: r.usize(ncont) },
            });
        }
        total_ops += ops.len();
        sc.actors.push(Actor { kind: "installer".into(), ops });
    }
    // faults
    let fault_permille = [0u64, 0, 40, 150, 400][r.usize(5)];
    if fault_permille > 0 {
        for seq in 0..(total_ops as u32 * 4) {
            if r.below(1000) < fault_permille {
                let f = gen_fault(&mut r, ncont, false);
                sc.faults.insert(seq, f);
            }
        }
    }
    let switch = [50u64, 200, 500, 900][r.usize(4)];
    if sc.actors.len() > 1 {
        sc.sched = sched(&mut r, total_ops * 10 + 8, switch);
    }
    sc.knobs = format!("clients={nclients} dirs={ndirs} file_density={density} fault_permille={fault_permille} switch_permille={switch}");
    sc
}

// ------------------------------------------------------------------ C15

/// The same zone shifted by `d` seconds: identical transition instants, rule days and rule times,
/// different offsets (like two neighbouring time zones of one country).
pub fn sibling(z: &ZoneSpec, d: i32) -> Option<ZoneSpec> {
    let mut s = z.clone();
    for t in s.types.iter_mut() {
        t.off = t.off.checked_add(d)?;
        if !t.desig.is_empty() {
            let n = t.desig.len();
            t.desig[n - 1] = if t.desig[n - 1] == b'Z' { b'Y' } else { b'Z' };
        }
    }
    if let Some(r) = s.rule.as_mut() {
        match r {
            RuleSpec::Fixed { off, desig } => {
                *off = off.checked_add(d)?;
                let n = desig.len();
                if n > 0 {
                    desig[n - 1] = if desig[n - 1] == b'Z' { b'Y' } else { b'Z' };
                }
            }
            RuleSpec::Alt { std_off, dst_off, std_desig, dst_desig, .. } => {
                *std_off = std_off.checked_add(d)?;
                *dst_off = dst_off.checked_add(d)?;
                for dd in [std_desig, dst_desig] {
                    let n = dd.len();
                    if n > 0 {
                        dd[n - 1] = if dd[n - 1] == b'Z' { b'Y' } else { b'Z' };
                    }
                }
            }
        }
    }
    if s.valid() && s.representable() {
        Some(s)
    } else {
        None
    }
}

pub fn gen_c15(seed: u64) -> Scenario {
    let mut r = Rng::new(seed);
    let mut sc = Scenario::empty("C15", "c15", seed);
    sc.dirs = vec!["/usr/share/zoneinfo".into(), "/share/zoneinfo".into()];
    let ncont = 2 + r.usize(3);
    let mut specs: Vec<Option<ZoneSpec>> = Vec::new();
    for i in 0..ncont {
        if r.chance(1, 4) {
            sc.contents.push(Content::Corpus(corpus_pick(&mut r)));
            specs.push(None);
        } else {
            let prev_sibling = if i > 0 && r.chance(1, 2) { specs[i - 1].clone().and_then(|p: ZoneSpec| sibling(&p, [3600, -3600, 7200, 1800][r.usize(4)])) } else { None };
            let z = match prev_sibling {
                Some(z) => z,
                None => {
                    let zo = ZoneOpts { tag: Some(i as u32 * 7 + 1), dense: r.chance(1, 2), allow_invalid: false, allow_huge: false, i32_times: r.chance(1, 2) };
                    gen_zone(&mut r, zo)
                }
            };
            specs.push(Some(z.clone()));
            sc.contents.push(Content::Gen(z));
        }
    }
    let names = ["Zone7", "Europe/Paris", "EST5EDT", "a"];
    for (k, name) in names.iter().enumerate() {
        if r.chance(2, 3) {
            sc.files.push(FileInit { path: format!("{}/{name}", sc.dirs[k % 2]), cid: r.usize(ncont), prev: Some(r.usize(ncont)), perm: None });
        }
    }
    sc.files.push(FileInit { path: "/etc/localtime".into(), cid: r.usize(ncont), prev: None, perm: None });
    sc.clock = match r.below(6) {
        0 => -r.range(0, 2_000_000_000) as i128 * 1_000_000_000 - 5,
        1 => 0,
        _ => r.range(0, 4_000_000_000) as i128 * 1_000_000_000 + r.below(1_000_000_000) as i128,
    };
    // a deliberately tiny set of instants and fields so that threads ask the same question of different zones
    let mut instants: Vec<i64> = Vec::new();
    for s in specs.iter().flatten() {
        if !s.trans.is_empty() {
            let (t, _) = s.trans[r.usize(s.trans.len())];
            instants.push(t);
            instants.push(t.saturating_sub(1));
        }
    }
    instants.push(0);
    instants.push(1_700_000_000);
    instants.push(r.range(-2_000_000_000, 2_000_000_000));
    // aliases of one of them: same low bits / same time of day / same place in the 400-year cycle
    // (what a table with truncated tags or a "same day" memo would confuse)
    let base = instants[r.usize(instants.len())];
    for d in [1i64 << 32, -(1i64 << 32), 1 << 16, 1 << 20, 86400, -86400, 86400 * 365, 86400 * 366, 12_622_780_800, -12_622_780_800, 1 << 40, 604_800, 1 << 4, 1 << 6, 1 << 8, 1 << 10, 1 << 12, 1 << 14, 1 << 24, 1 << 48, 3 << 8, 5 << 12, 7 << 16, 3600, 1800, 900, 60] {
        if r.chance(1, 4) {
            instants.push(base.saturating_add(d));
        }
    }
    let mut fields: Vec<Fields> = Vec::new();
    for s in specs.iter().flatten() {
        fields.push(interesting_fields(&mut r, s));
    }
    fields.push(Fields { y: 2024, mo: 3, d: 31, h: 2, mi: 30, s: 0, ns: 0 });
    fields.push(Fields { y: 1970, mo: 1, d: 1, h: 0, mi: 0, s: 0, ns: 0 });
    // after the tables of the real zones end, their footer rule answers (US / EU / AU change days)
    let fy = 2038 + r.below(40) as i32;
    fields.push(Fields { y: fy, mo: 3, d: 8 + r.below(7) as u8, h: 2, mi: 30, s: 0, ns: 0 });
    fields.push(Fields { y: fy, mo: 11, d: 1 + r.below(7) as u8, h: 1, mi: 30, s: 0, ns: 0 });
    fields.push(Fields { y: fy, mo: 10, d: 1 + r.below(7) as u8, h: 2, mi: 30, s: 0, ns: 0 });
    // the same local date-time in years that collide in a table indexed by (year mod 2^k) or by the 400-year cycle
    let fbase = fields[r.usize(fields.len())];
    for dy in [8i32, 16, 64, 256, 400, 4, 28] {
        if r.chance(1, 3) {
            fields.push(Fields { y: fbase.y.saturating_add(dy), ..fbase });
        }
    }

    let nclients = 2 + r.usize(3);
    let mut total = 0;
    for _c in 0..nclients {
        let mut ops = Vec::new();
        // load some zones first
        for s in 0..2 + r.usize(2) {
            if r.chance(1, 2) {
                ops.push(Op::Decode { cid: r.usize(ncont), fault: None, slot: s });
            } else {
                if r.chance(1, 6) {
                    ops.push(Op::ResolveLocal { dirs: vec![0, 1], slot: s });
                    continue;
                }
                let tz = match r.below(5) {
                    0 => TzArg::Lit("localtime".into()),
                    1 => TzArg::Desc { spec: gen_rule(&mut r, false, true, None), style: r.below(32) as u8, lpad: String::new(), rpad: String::new() },
                    _ => TzArg::Lit(r.pick(&names).to_string()),
                };
                ops.push(Op::Resolve { tz, dirs: vec![0, 1], slot: s });
            }
        }
        if r.chance(1, 2) {
            ops.push(Op::Share { slot: r.usize(3), pool: r.usize(2) });
        }
        let nq = 4 + r.usize(16);
        for _ in 0..nq {
            let z = match r.below(10) {
                0 => ZRef::U,
                1 | 2 => ZRef::K(r.usize(4)),
                3 | 4 | 5 => ZRef::S(r.usize(2)),
                _ => ZRef::P(r.usize(4)),
            };
            let t = r.pick(&instants).saturating_add(if r.chance(1, 5) { r.range(-1, 1) } else { 0 });
            let f = *r.pick(&fields);
            ops.push(match r.below(16) {
                0 | 1 | 2 => Op::Lookup { z, t },
                3 | 4 => Op::FromTs { z, t, ns: if r.chance(1, 2) { 0 } else { 999_999_999 } },
                5 => Op::FromTotal { z, n: t as i128 * 1_000_000_000 + 7 },
                6 => Op::Project { z, t, ns: 5, to: if r.chance(1, 2) { ZRef::S(r.usize(2)) } else { ZRef::K(r.usize(4)) } },
                7 => Op::UtcProject { t, ns: 0, to: z },
                8 | 9 => Op::Find { z, f },
                10 => Op::FindN { z, f, n: r.usize(4), buf: r.usize(2) },
                11 => Op::FindAt { z, pick: r.below(64), delta: r.range(-2, 2) * 1800, n: r.usize(4), buf: r.usize(2) },
                12 => Op::Format { z, t, ns: 1 },
                13 => Op::Now { z },
                14 => {
                    if r.chance(1, 2) {
                        Op::UtcNow
                    } else {
                        Op::Current { z: ZRef::P(r.usize(3)) }
                    }
                }
                _ => match r.below(5) {
                    4 => Op::Construct { kind: if r.chance(1, 4) { "ambient_local".into() } else { "ambient_tz".into() }, args: vec![r.below(1000) as i64] },
                    0 => Op::Share { slot: r.usize(3), pool: r.usize(2) },
                    1 => Op::CloneZ { z: ZRef::S(r.usize(2)), slot: r.usize(4) },
                    2 => {
                        if r.chance(1, 3) {
                            Op::ResolveLocal { dirs: vec![0, 1], slot: r.usize(4) }
                        } else {
                            Op::Resolve { tz: TzArg::Lit(r.pick(&names).to_string()), dirs: vec![0, 1], slot: r.usize(4) }
                        }
                    }
                    _ => Op::Decode { cid: r.usize(ncont), fault: None, slot: r.usize(4) },
                },
            });
        }
        total += ops.len();
        sc.actors.push(Actor { kind: "client".into(), ops });
    }
    if r.chance(2, 3) {
        let mut ops = Vec::new();
        for _ in 0..1 + r.usize(4) {
            let path = if r.chance(1, 4) { "/etc/localtime".to_string() } else { format!("{}/{}", sc.dirs[r.usize(2)], r.pick(&names)) };
            ops.push(match r.below(5) {
                0 => Op::Remove { path },
                1 => Op::BeginUpgrade { path, cid: r.usize(ncont), cut: r.below(2000) as usize },
                2 => Op::EndUpgrade { path },
                _ => Op::AtomicReplace { path, cid: r.usize(ncont) },
            });
        }
        total += ops.len();
        sc.actors.push(Actor { kind: "installer".into(), ops });
    }
    if r.chance(3, 4) {
        let mut ops = Vec::new();
        for _ in 0..1 + r.usize(6) {
            ops.push(match r.below(8) {
                0 | 1 => Op::SetEnv { key: "TZ".into(), val: ["Asia/Tokyo", "UTC0", ":Europe/Paris", "", "junk", "EST5EDT"][r.usize(6)].into() },
                2 => Op::SetEnv { key: ["TZDIR", "LANG", "LC_ALL"][r.usize(3)].into(), val: ["/d3", "C", "fr_FR.UTF-8", "/share/zoneinfo"][r.usize(4)].into() },
                3 if r.chance(1, 2) => {
                    if r.chance(1, 2) {
                        Op::SetEnv { key: "TZDIR".into(), val: "@CORPUS/right".into() }
                    } else {
                        Op::SetEnv { key: "CWD".into(), val: ["@CORPUS/..", "@CORPUS", "/"][r.usize(3)].into() }
                    }
                }
                3 => Op::UnsetEnv { key: ["TZ", "TZDIR"][r.usize(2)].into() },
                4 => Op::ClockAdvance { ns: r.range(1, 4_000_000_000_000) as i128 * if r.chance(1, 2) { 1_000_000 } else { 1 } },
                5 => {
                    if r.chance(3, 4) {
                        Op::SetEnv { key: "DECOYS".into(), val: ["/d3", "/usr/share/zoneinfo", "/share/zoneinfo", "@CORPUS/right", "/etc/zoneinfo", "1"][r.usize(6)].into() }
                    } else {
                        Op::UnsetEnv { key: "DECOYS".into() }
                    }
                }
                6 => Op::ClockJump { to: sc.clock - r.range(1, 1_000_000_000) as i128 * 1_000_000_000 },
                _ => Op::ClockJump { to: [-1i128, -1_000_000_001, 253_402_300_800_000_000_000, -67768100567971201i128 * 1_000_000_000, 67767976233532800i128 * 1_000_000_000, (u64::MAX as i128) * 1_000_000_000, -(u64::MAX as i128) * 1_000_000_000, 0][r.usize(8)] },
            });
        }
        total += ops.len();
        sc.actors.push(Actor { kind: "env".into(), ops });
    }
    let fault_permille = [0u64, 0, 30, 120][r.usize(4)];
    if fault_permille > 0 {
        for seq in 0..(total as u32) {
            if r.below(1000) < fault_permille {
                let f = gen_fault(&mut r, ncont, true);
                sc.faults.insert(seq, f);
            }
        }
    }
    // one scenario in five also works on real files: an installer replaces them atomically while clients read them
    // through the default reader (every file-system request of such a read is a scheduling point)
    let mut total = total;
    if r.chance(1, 5) {
        let inst = match sc.actors.iter().position(|a| a.kind == "installer") {
            Some(i) => i,
            None => {
                sc.actors.push(Actor { kind: "installer".into(), ops: vec![] });
                sc.actors.len() - 1
            }
        };
        let names = ["L0", "L1"];
        sc.actors[inst].ops.insert(0, Op::LiveInstall { name: names[0].into(), cid: r.usize(ncont) });
        for _ in 0..2 + r.usize(5) {
            let at = 1 + r.usize(sc.actors[inst].ops.len());
            sc.actors[inst].ops.insert(at, Op::LiveInstall { name: names[r.usize(2)].into(), cid: r.usize(ncont) });
            total += 1;
        }
        for a in sc.actors.iter_mut().filter(|a| a.kind == "client") {
            for _ in 0..1 + r.usize(3) {
                let at = r.usize(a.ops.len() + 1);
                a.ops.insert(at, Op::LiveRead { name: names[if r.chance(3, 4) { 0 } else { 1 }].into() });
                total += 4;
            }
        }
    }
    let switch = [50u64, 200, 500, 900][r.usize(4)];
    sc.sched = sched(&mut r, total * 6 + 8, switch);
    sc.knobs = format!("clients={nclients} fault_permille={fault_permille} switch_permille={switch}");
    sc
}

// ------------------------------------------------------------------ C08 (sampled part)

pub fn gen_c08(seed: u64) -> Scenario {
    let mut r = Rng::new(seed);
    let mut sc = Scenario::empty("C08", "c08", seed);
    sc.dirs = vec!["/usr/share/zoneinfo".into()];
    let n = 1 + r.usize(4);
    let mut ops = Vec::new();
    for i in 0..n {
        let z = { let zo = ZoneOpts { tag: Some(i as u32 + 1), dense: r.chance(1, 4), allow_invalid: r.chance(1, 3), allow_huge: r.chance(1, 40), i32_times: r.chance(1, 3) }; gen_zone(&mut r, zo) };
        let len = z.bytes().map_or(0, |b| b.len());
        sc.contents.push(Content::Gen(z));
        let cid = sc.contents.len() - 1;
        ops.push(Op::Decode { cid, fault: None, slot: i % 4 });
        // faults on this content
        for _ in 0..r.usize(4) {
            let f = match r.below(8) {
                0 | 1 => Fault::Typed(r.pick(TYPED_KINDS).to_string(), r.next() % 100_000),
                2 => Fault::Scribble(0, r.next() % 1_000_000),
                3 => Fault::Short(r.usize(len.max(1))),
                4 => Fault::Flip((0..1 + r.below(3)).map(|_| r.next() % 1_000_000).collect()),
                5 => Fault::GarbageAppend(1 + r.usize(5), [0u8, b'\n', 0xFF][r.usize(3)]),
                6 => Fault::Torn(r.usize(sc.contents.len()), r.usize(len.max(1))),
                _ => Fault::ZeroTail(r.usize(len.max(1))),
            };
            ops.push(Op::Decode { cid, fault: Some(f), slot: 7 });
        }
        if r.chance(1, 3) {
            // the same content through the read seam
            let path = format!("/usr/share/zoneinfo/Z{i}");
            sc.files.push(FileInit { path, cid, prev: None, perm: None });
            ops.push(Op::Resolve { tz: TzArg::Lit(format!("Z{i}")), dirs: vec![0], slot: 6 });
        }
    }
    if r.chance(1, 5) {
        sc.contents.push(Content::Corpus(corpus_pick(&mut r)));
        let cid = sc.contents.len() - 1;
        ops.push(Op::Decode { cid, fault: None, slot: 5 });
        for _ in 0..3 {
            ops.push(Op::Decode { cid, fault: Some(Fault::Flip((0..1 + r.below(3)).map(|_| r.next() % 1_000_000).collect())), slot: 7 });
            ops.push(Op::Decode { cid, fault: Some(Fault::Typed(r.pick(TYPED_KINDS).to_string(), r.next() % 100_000)), slot: 7 });
        }
    }
    sc.actors.push(Actor { kind: "client".into(), ops });
    sc
}

// ------------------------------------------------------------------ C07

const BOUNDARY_NUMS: &[i64] = &[0, 1, -1, 2, 59, 60, 61, 365, 366, 12, 13, 23, 24, 25, 28, 29, 30, 31, 32, 255, 256, 65535, 999_999_999, 1_000_000_000, i32::MAX as i64, i32::MIN as i64, i32::MAX as i64 - 1, i32::MIN as i64 + 1, i32::MIN as i64 + 2, i32::MAX as i64 - 2, i64::MAX, i64::MIN, i64::MAX - 1, i64::MIN + 1, 67767976233532799, 67767976233532800, -67768100567971200, -67768100567971201, 604799, 604800, -604799, -604800, 90000, -90000, 93599, 93600, -89999, -90000, 86400, 2419199, 2419200];

fn bnum(r: &mut Rng) -> i64 {
    match r.below(4) {
        0 => r.range(-100, 100),
        1 => r.next() as i64,
        _ => r.pick(BOUNDARY_NUMS).saturating_add(r.range(-1, 1)),
    }
}

pub fn gen_c07(seed: u64) -> Scenario {
    let mut r = Rng::new(seed);
    let mut sc = Scenario::empty("C07", "c07", seed);
    sc.dirs = vec!["/usr/share/zoneinfo".into(), "/etc/zoneinfo".into()];
    let mut ops = Vec::new();
    let n = 1 + r.usize(3);
    for i in 0..n {
        let c = if r.chance(1, 3) {
            Content::Corpus(corpus_pick(&mut r))
        } else {
            Content::Gen({ let zo = ZoneOpts { tag: None, dense: r.chance(1, 3), allow_invalid: r.chance(1, 2), allow_huge: r.chance(1, 30), i32_times: false }; gen_zone(&mut r, zo) })
        };
        sc.contents.push(c);
        let cid = sc.contents.len() - 1;
        let nf = 1 + r.usize(4);
        for _ in 0..nf {
            let fault = if r.chance(1, 5) { None } else { Some(gen_content_fault(&mut r, sc.contents.len())) };
            let slot = i % 4;
            if r.chance(1, 4) {
                let path = format!("/usr/share/zoneinfo/Z{i}");
                if !sc.files.iter().any(|f| f.path == path) {
                    sc.files.push(FileInit { path, cid, prev: None, perm: None });
                }
                // the fault is attached to the read that this resolve will make: we do not know its
                // sequence number in general, so give the same fault to a range of reads
                ops.push(Op::Resolve { tz: TzArg::Lit(format!("Z{i}")), dirs: vec![0, 1], slot });
            } else {
                ops.push(Op::Decode { cid, fault, slot });
            }
            // follow-ups on whatever came back
            let picks: Vec<i64> = (0..4 + r.usize(12)).map(|_| r.next() as i64 >> 1).collect();
            ops.push(Op::Boundary { z: ZRef::P(slot), picks });
            if r.chance(1, 3) {
                ops.push(Op::Find { z: ZRef::P(slot), f: random_fields(&mut r) });
                ops.push(Op::FindN { z: ZRef::P(slot), f: random_fields(&mut r), n: r.usize(3), buf: 0 });
            }
            if r.chance(1, 4) {
                ops.push(Op::ClockJump { to: [-1i128, (u64::MAX as i128) * 1_000_000_000 + 999_999_999, -(u64::MAX as i128) * 1_000_000_000, 67767976233532800i128 * 1_000_000_000, (i64::MAX as i128) * 1_000_000_000, (i64::MAX as i128 + 1) * 1_000_000_000, r.next() as i64 as i128][r.usize(7)] });
                ops.push(Op::Now { z: ZRef::P(slot) });
                ops.push(Op::UtcNow);
                ops.push(Op::Current { z: ZRef::P(slot) });
            }
        }
    }
    // faults for the resolves
    for seq in 0..8u32 {
        if r.chance(1, 2) {
            let f = gen_content_fault(&mut r, sc.contents.len());
            sc.faults.insert(seq, f);
        }
    }
    // client misuse: constructors with boundary numbers
    for _ in 0..r.usize(8) {
        let (kind, n) = *r.pick(&[("ltt", 3), ("ltt_off", 1), ("fixed", 1), ("utc_new", 7), ("dt_new", 8), ("utc_ts", 2), ("utc_total", 4), ("dt_ts_local", 3), ("mwd", 3), ("j1", 1), ("j0", 1), ("alt", 16), ("tzref", 22), ("tzref_many", 10), ("project_x", 4)]);
        let mut args: Vec<i64> = (0..n).map(|_| bnum(&mut r)).collect();
        if kind == "project_x" {
            args[0] = r.range(-4_000_000_000, 4_000_000_000);
            let offs = [i32::MAX as i64, i32::MIN as i64 + 1, 1_500_000_000, -1_500_000_000, 50400, -43200, 0, 1];
            args[2] = offs[r.usize(8)];
            args[3] = offs[r.usize(8)];
        }
        if kind == "alt" && r.chance(3, 4) {
            // plausible rule so that the lookups behind it are reached
            args[0] = *r.pick(&OFFSETS[5..30]) as i64;
            args[1] = args[0] + 3600;
            args[2] = 2;
            args[3] = 1 + r.below(12) as i64;
            args[4] = if r.chance(1, 6) { [0i64, 6][r.usize(2)] } else { 1 + r.below(5) as i64 };
            args[5] = if r.chance(1, 8) { 7 } else { r.below(7) as i64 };
            args[6] = r.range(-604799, 604799);
            args[7] = 2;
            args[8] = if r.chance(1, 2) { args[3] } else { 1 + r.below(12) as i64 };
            args[9] = if r.chance(1, 6) { [0i64, 6][r.usize(2)] } else { 1 + r.below(5) as i64 };
            args[10] = if r.chance(1, 8) { 7 } else { r.below(7) as i64 };
            args[11] = r.range(-604799, 604799);
        }
        if kind == "tzref" && r.chance(3, 4) {
            let nt = r.below(6) as i64;
            let nl = r.below(4) as i64;
            args[0] = nt;
            args[1] = nl;
            let mut p = 3;
            let mut t = time_mixture(&mut r);
            for _ in 0..nt {
                args[p] = t;
                args[p + 1] = r.below(3) as i64;
                t = t.saturating_add(1 + r.range(0, 100_000));
                p += 2;
            }
            let mut lt = r.range(0, 1_000_000);
            for k in 0..nl {
                args[p] = lt;
                args[p + 1] = k + 1;
                lt += 2419199 + r.range(0, 10);
                p += 2;
            }
        }
        if kind == "utc_new" || kind == "dt_new" {
            if r.chance(1, 2) {
                let f = random_fields(&mut r);
                args[..7].copy_from_slice(&[f.y as i64, f.mo as i64, f.d as i64, f.h as i64, f.mi as i64, f.s as i64, f.ns as i64]);
            }
        }
        ops.push(Op::Construct { kind: kind.to_string(), args });
    }
    if r.chance(1, 4) {
        let s = tz_string_bytes(&mut r);
        ops.push(Op::Construct { kind: "tzstr".into(), args: s.iter().map(|b| *b as i64).collect() });
    }
    sc.actors.push(Actor { kind: "client".into(), ops });
    sc
}

fn gen_content_fault(r: &mut Rng, ncont: usize) -> Fault {
    match r.below(10) {
        0 | 1 => Fault::Flip((0..1 + r.below(4)).map(|_| r.next() % 1_000_000).collect()),
        2 => Fault::Short(r.below(4000) as usize),
        3 => Fault::ZeroTail(r.below(3000) as usize),
        4 => Fault::Torn(r.usize(ncont.max(1)), r.below(3000) as usize),
        5 => Fault::GarbageAppend(1 + r.below(9) as usize, r.next() as u8),
        6 => Fault::Scribble(0, r.next() % 1_000_000),
        _ => Fault::Typed(r.pick(TYPED_KINDS).to_string(), r.next() % 100_000),
    }
}

fn tz_string_bytes(r: &mut Rng) -> Vec<u8> {
    let parts: &[&str] = &["EST", "5", "EDT", ",", "M3.2.0", "M11.1.0", "/2", "/-1", "/25", "/167:59:59", "J1", "J365", "J366", "0", "365", "366", "<+03>", "<", ">", "-", "+", ":", "24:59:59", "25", "M13.1.0", "M1.6.0", "M1.1.7", "M3.0.0", "M3.2.1", "M0.1.0", ",M3.0.0,M3.2.1", "AAA0BBB", "596524", "/596524", "2147483647", "4294967296", "65536", "/-596524", "J596524", "M3.596524.0", "99999999999999999999", " ", "\0", "é", "UTC0", ",M3.5.0,M10.5.0/3", "4:30"];
    let mut s = Vec::new();
    if r.chance(1, 30) {
        // one token repeated thousands of times (a parser that recurses per token runs out of stack)
        let tok = [":", "<", "-", "+", "0", "M", ",", "/", " ", "<>", "A", "1:"][r.usize(12)];
        let n = [1000usize, 5000, 20_000, 100_000][r.usize(4)];
        for _ in 0..n {
            s.extend_from_slice(tok.as_bytes());
        }
        if r.chance(1, 2) {
            s.extend_from_slice(b"UTC0");
        }
        return s;
    }
    for _ in 0..1 + r.usize(8) {
        s.extend_from_slice(r.pick(parts).as_bytes());
    }
    s
}

// ------------------------------------------------------------------ C17

pub fn gen_c17(seed: u64) -> Scenario {
    let mut r = Rng::new(seed);
    let mut sc = Scenario::empty("C17", "c17", seed);
    let nz = 1 + r.usize(3);
    let mut specs = Vec::new();
    let mut ops = Vec::new();
    for i in 0..nz {
        if r.chance(1, 6) {
            sc.contents.push(Content::Corpus(corpus_pick(&mut r)));
            specs.push(None);
        } else {
            let z = { let zo = ZoneOpts { tag: Some(i as u32 + 1), dense: r.chance(3, 4), allow_invalid: false, allow_huge: false, i32_times: r.chance(2, 3) }; gen_zone(&mut r, zo) };
            specs.push(Some(z.clone()));
            sc.contents.push(Content::Gen(z));
        }
        ops.push(Op::Decode { cid: i, fault: None, slot: i });
    }
    // a zone in which one local time has hundreds (rarely: more than 65 536) of results
    if r.chance(1, 40) {
        let (n, d) = if r.chance(1, 60) { (140_000usize, 140_000i32) } else { ([300usize, 600, 1200][r.usize(3)], [520i32, 700, 2000][r.usize(3)]) };
        sc.contents.push(Content::PingPong { n, d });
        let cid = sc.contents.len() - 1;
        ops.push(Op::Decode { cid, fault: None, slot: 5 });
        for _ in 0..2 + r.usize(3) {
            let t = crate::spec::PINGPONG_T0 + (n as i64) / 2 + r.range(-3, 3);
            if let Some(f) = fields_at(t, if r.chance(1, 2) { 0 } else { d as i64 / 2 }, 0) {
                ops.push(Op::FindN { z: ZRef::P(5), f, n: [0usize, 1, 3, 5, 17, 255, 256, 257, 259, 260, 261, 262, 1000, 65_535, 65_536, 65_537, 70_001, 140_003][r.usize(18)], buf: r.usize(2) });
            }
        }
    }
    let nq = 10 + r.usize(30);
    for _ in 0..nq {
        let zi = r.usize(nz);
        let z = if r.chance(1, 10) { ZRef::K(r.usize(4)) } else { ZRef::P(zi) };
        let f = match &specs[zi] {
            Some(s) if r.chance(5, 6) => interesting_fields(&mut r, s),
            _ => {
                if r.chance(1, 2) {
                    random_fields(&mut r)
                } else {
                    // around DST changes of real zones / K zones
                    let y = r.range(1950, 2040) as i32;
                    Fields { y, mo: [3u8, 4, 10, 11, 1, 12][r.usize(6)], d: 1 + r.below(31) as u8, h: r.below(5) as u8, mi: [0u8, 30, 59][r.usize(3)], s: [0u8, 59, 60][r.usize(3)], ns: 0 }
                }
            }
        };
        let buf = r.usize(2);
        match r.below(10) {
            0 => ops.push(Op::Resize { buf, n: buflen(&mut r) }),
            1 => ops.push(Op::Find { z, f }),
            2 | 3 | 4 => {
                // at the zone's own transitions (works for real zones too)
                let delta = match r.below(5) {
                    0 => 0,
                    1 => -1,
                    2 => r.range(-3700, 3700),
                    3 => r.range(-100, 100),
                    _ => r.range(-90000, 90000),
                };
                ops.push(Op::FindAt { z, pick: r.next() >> 8, delta, n: buflen(&mut r), buf })
            }
            _ => ops.push(Op::FindN { z, f, n: buflen(&mut r), buf }),
        }
    }
    sc.actors.push(Actor { kind: "client".into(), ops });
    sc
}

// ------------------------------------------------------------------ C19

/// Operations of the API surface that exists in more than one feature configuration.
pub fn gen_c19(seed: u64) -> Scenario {
    let mut r = Rng::new(seed);
    let mut sc = Scenario::empty("C19", "c19", seed);
    let nz = 1 + r.usize(3);
    let mut specs = Vec::new();
    let mut ops = Vec::new();
    for i in 0..nz {
        let zo = ZoneOpts { tag: Some(i as u32 + 1), dense: r.chance(1, 2), allow_invalid: r.chance(1, 8), allow_huge: false, i32_times: r.chance(1, 2) };
        let z = gen_zone(&mut r, zo);
        specs.push(z.clone());
        sc.contents.push(Content::Gen(z));
        ops.push(Op::Decode { cid: i, fault: None, slot: i });
    }
    // a small virtual filesystem for the resolution path (exists with `alloc`; compared between {alloc} and {alloc,std})
    sc.dirs = vec!["/zi".into(), "/zi/".into(), "".into(), "rel".into(), "/a//b/".into()];
    for (i, name) in ["Zone/A", "B", "EST5EDT", "localtime"].iter().enumerate() {
        let d = sc.dirs[r.usize(sc.dirs.len())].clone();
        sc.files.push(FileInit { path: format!("{d}/{name}"), cid: i % nz, prev: None, perm: if r.chance(1, 5) { Some(r.pick(ErrKind::ALL).clone()) } else { None } });
        if r.chance(1, 2) {
            sc.files.push(FileInit { path: format!("{}/{name}", d.trim_end_matches('/')), cid: (i + 1) % nz, prev: None, perm: None });
        }
    }
    sc.files.push(FileInit { path: "/etc/localtime".into(), cid: 0, prev: None, perm: None });
    for _ in 0..r.usize(4) {
        let tz = match r.below(8) {
            0 => "localtime".to_string(),
            1 => format!(":{}", ["Zone/A", "B", "None"][r.usize(3)]),
            2 => " EST5EDT ".to_string(),
            3 => "<+03>-3".to_string(),
            4 => "/zi//Zone/A".to_string(),
            _ => ["Zone/A", "B", "EST5EDT", "None", "localtime"][r.usize(5)].to_string(),
        };
        let mut dirs: Vec<usize> = (0..sc.dirs.len()).collect();
        for i in (1..dirs.len()).rev() {
            dirs.swap(i, r.usize(i + 1));
        }
        dirs.truncate(1 + r.usize(4));
        if r.chance(1, 4) {
            ops.push(Op::ResolveLocal { dirs, slot: 7 });
        } else {
            ops.push(Op::Resolve { tz: TzArg::Lit(tz), dirs, slot: 7 });
        }
    }
    let nq = 10 + r.usize(30);
    for _ in 0..nq {
        let zi = r.usize(nz);
        let z = match r.below(10) {
            0 => ZRef::U,
            1 => ZRef::K(r.usize(4)),
            _ => ZRef::P(zi),
        };
        let t = interesting_instant(&mut r, Some(&specs[zi]), &[]);
        let f = if r.chance(3, 4) { interesting_fields(&mut r, &specs[zi]) } else { random_fields(&mut r) };
        let ns = if r.chance(1, 2) { 0 } else { r.below(1_000_000_000) as u32 };
        ops.push(match r.below(14) {
            0 | 1 | 2 => Op::Lookup { z, t },
            3 | 4 => Op::FromTs { z, t, ns },
            5 => Op::FromTotal { z, n: (t as i128) * 1_000_000_000 + ns as i128 },
            6 => Op::Project { z, t, ns, to: if r.chance(1, 2) { ZRef::P(r.usize(nz)) } else { ZRef::K(r.usize(4)) } },
            7 => Op::UtcProject { t, ns, to: z },
            8 => Op::FindN { z, f, n: r.usize(5), buf: r.usize(2) },
            9 => Op::FindAt { z, pick: r.next() >> 8, delta: r.range(-4000, 4000), n: r.usize(5), buf: r.usize(2) },
            10 => Op::Find { z, f },
            11 => Op::Format { z, t, ns },
            _ => {
                let (kind, n) = *r.pick(&[("ltt", 3), ("ltt_off", 1), ("utc_new", 7), ("dt_new", 8), ("utc_ts", 2), ("utc_total", 4), ("dt_ts_local", 3), ("mwd", 3), ("j1", 1), ("j0", 1), ("alt", 16), ("tzref", 22), ("tzref_many", 10), ("project_x", 4)]);
                let mut args: Vec<i64> = (0..n).map(|_| bnum(&mut r)).collect();
                if kind == "alt" {
                    args[0] = *r.pick(&OFFSETS[5..30]) as i64;
                    args[1] = args[0] + 3600;
                    args[2] = 2;
                    args[3] = 1 + r.below(12) as i64;
                    args[4] = 1 + r.below(5) as i64;
                    args[5] = r.below(7) as i64;
                    args[6] = r.range(-100_000, 100_000);
                    args[7] = 2;
                    args[8] = 1 + r.below(12) as i64;
                    args[9] = 1 + r.below(5) as i64;
                    args[10] = r.below(7) as i64;
                    args[11] = r.range(-100_000, 100_000);
                    for k in 12..16 {
                        args[k] = time_mixture(&mut r);
                    }
                }
                if kind == "utc_new" || kind == "dt_new" {
                    let f = random_fields(&mut r);
                    args[..7].copy_from_slice(&[f.y as i64, f.mo as i64, f.d as i64, f.h as i64, f.mi as i64, f.s as i64, f.ns as i64]);
                }
                Op::Construct { kind: kind.to_string(), args }
            }
        });
    }
    sc.actors.push(Actor { kind: "client".into(), ops });
    sc
}

pub fn generate(prop: &str, seed: u64) -> Scenario {
    match prop {
        "C20" => gen_c20(seed),
        "C15" => gen_c15(seed),
        "C08" => gen_c08(seed),
        "C07" => gen_c07(seed),
        "C17" => gen_c17(seed),
        "C19" => gen_c19(seed),
        _ => gen_c20(seed),
    }
}

#[allow(dead_code)]
fn _unused(r: &mut Rng) -> i64 {
    interesting_instant(r, None, &[])
}
