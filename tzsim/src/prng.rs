//! SplitMix64 / xoshiro256** — the only source of randomness in the generator.
//! The executor never draws from it.

#[derive(Clone, Debug)]
pub struct Rng {
    s: [u64; 4],
}

pub fn splitmix(x: &mut u64) -> u64 {
    *x = x.wrapping_add(0x9E37_79B9_7F4A_7C15);
    let mut z = *x;
    z = (z ^ (z >> 30)).wrapping_mul(0xBF58_476D_1CE4_E5B9);
    z = (z ^ (z >> 27)).wrapping_mul(0x94D0_49BB_1331_11EB);
    z ^ (z >> 31)
}

/// FNV-1a 64 over bytes (used for digests and property tags)
pub fn fnv(bytes: &[u8]) -> u64 {
    let mut h: u64 = 0xcbf2_9ce4_8422_2325;
    for &b in bytes {
        h ^= b as u64;
        h = h.wrapping_mul(0x0000_0100_0000_01B3);
    }
    h
}

pub fn fnv_add(h: u64, bytes: &[u8]) -> u64 {
    let mut h = h;
    for &b in bytes {
        h ^= b as u64;
        h = h.wrapping_mul(0x0000_0100_0000_01B3);
    }
    h
}

impl Rng {
    pub fn new(seed: u64) -> Self {
        let mut x = seed;
        let s = [splitmix(&mut x), splitmix(&mut x), splitmix(&mut x), splitmix(&mut x)];
        Rng { s }
    }

    pub fn next(&mut self) -> u64 {
        let r = self.s[1].wrapping_mul(5).rotate_left(7).wrapping_mul(9);
        let t = self.s[1] << 17;
        self.s[2] ^= self.s[0];
        self.s[3] ^= self.s[1];
        self.s[1] ^= self.s[2];
        self.s[0] ^= self.s[3];
        self.s[2] ^= t;
        self.s[3] = self.s[3].rotate_left(45);
        r
    }

    /// uniform in 0..n (n > 0)
    pub fn below(&mut self, n: u64) -> u64 {
        if n <= 1 {
            return 0;
        }
        // multiply-shift; bias is irrelevant here
        ((self.next() as u128 * n as u128) >> 64) as u64
    }

    pub fn usize(&mut self, n: usize) -> usize {
        self.below(n as u64) as usize
    }

    /// uniform in lo..=hi
    pub fn range(&mut self, lo: i64, hi: i64) -> i64 {
        debug_assert!(lo <= hi);
        let span = (hi as i128 - lo as i128 + 1) as u128;
        if span > u64::MAX as u128 {
            return self.next() as i64;
        }
        (lo as i128 + self.below(span as u64) as i128) as i64
    }

    /// true with probability num/den
    pub fn chance(&mut self, num: u64, den: u64) -> bool {
        self.below(den) < num
    }

    pub fn pick<'a, T>(&mut self, xs: &'a [T]) -> &'a T {
        &xs[self.usize(xs.len())]
    }
}
