//! Minimisation of a failing scenario: drop actors, ddmin over operation lists, drop
//! faults, quieten the scheduler, drop files and directories — while the same oracle
//! keeps firing.

use crate::exec::{execute, Armed, ExecOpts};
use crate::scn::{Op, Scenario};
use crate::world::Corpus;
use std::time::Instant;

pub struct Shrinker<'a> {
    pub corpus: &'a mut Corpus,
    pub armed: Armed,
    pub opts: ExecOpts,
    pub oracle: String,
    pub budget: usize,
    pub deadline: Instant,
    pub runs: usize,
    /// evaluate candidates in a fresh child process (for violations that depend on process state)
    pub child_exe: Option<String>,
}

impl<'a> Shrinker<'a> {
    fn fails(&mut self, sc: &Scenario) -> bool {
        if self.runs >= self.budget || Instant::now() > self.deadline {
            return false;
        }
        self.runs += 1;
        if let Some(exe) = &self.child_exe {
            return crate::child_violations(exe, sc, false).map_or(false, |os| os.iter().any(|o| *o == self.oracle));
        }
        let out = execute(sc, self.corpus, self.armed, &self.opts);
        out.violations.iter().any(|v| v.oracle == self.oracle)
    }

    pub fn shrink(&mut self, sc: &Scenario) -> Scenario {
        let mut cur = sc.clone();
        let mut progress = true;
        while progress {
            progress = false;
            // 1. drop whole actors
            let mut i = cur.actors.len();
            while i > 0 {
                i -= 1;
                if cur.actors.len() <= 1 {
                    break;
                }
                let mut c = cur.clone();
                c.actors.remove(i);
                if self.fails(&c) {
                    cur = c;
                    progress = true;
                }
            }
            // 2. ddmin over each actor's operations
            for a in 0..cur.actors.len() {
                let mut chunk = (cur.actors[a].ops.len() / 2).max(1);
                loop {
                    let mut start = 0;
                    while start < cur.actors[a].ops.len() {
                        let end = (start + chunk).min(cur.actors[a].ops.len());
                        let mut c = cur.clone();
                        c.actors[a].ops.drain(start..end);
                        if self.fails(&c) {
                            cur = c;
                            progress = true;
                        } else {
                            start = end;
                        }
                    }
                    if chunk == 1 {
                        break;
                    }
                    chunk /= 2;
                }
            }
            // 3. drop faults
            let keys: Vec<u32> = cur.faults.keys().copied().collect();
            if !keys.is_empty() {
                let mut c = cur.clone();
                c.faults.clear();
                if self.fails(&c) {
                    cur = c;
                    progress = true;
                } else {
                    for k in keys {
                        let mut c = cur.clone();
                        c.faults.remove(&k);
                        if self.fails(&c) {
                            cur = c;
                            progress = true;
                        }
                    }
                }
            }
            // 4. quieten the scheduler
            if cur.sched.iter().any(|x| *x != 0) {
                let mut c = cur.clone();
                c.sched.clear();
                if self.fails(&c) {
                    cur = c;
                    progress = true;
                } else {
                    let idx: Vec<usize> = (0..cur.sched.len()).filter(|i| cur.sched[*i] != 0).collect();
                    for i in idx {
                        let mut c = cur.clone();
                        c.sched[i] = 0;
                        if self.fails(&c) {
                            cur = c;
                            progress = true;
                        }
                    }
                    while cur.sched.last() == Some(&0) {
                        cur.sched.pop();
                    }
                }
            }
            // 5. drop files
            let mut i = cur.files.len();
            while i > 0 {
                i -= 1;
                let mut c = cur.clone();
                c.files.remove(i);
                if self.fails(&c) {
                    cur = c;
                    progress = true;
                }
            }
            // 6. shorten directory lists of resolve operations
            for a in 0..cur.actors.len() {
                for o in 0..cur.actors[a].ops.len() {
                    loop {
                        let n = match &cur.actors[a].ops[o] {
                            Op::Resolve { dirs, .. } | Op::ResolveLocal { dirs, .. } => dirs.len(),
                            _ => 0,
                        };
                        if n == 0 {
                            break;
                        }
                        let mut done = true;
                        for k in (0..n).rev() {
                            let mut c = cur.clone();
                            if let Op::Resolve { dirs, .. } | Op::ResolveLocal { dirs, .. } = &mut c.actors[a].ops[o] {
                                dirs.remove(k);
                            }
                            if self.fails(&c) {
                                cur = c;
                                progress = true;
                                done = false;
                                break;
                            }
                        }
                        if done {
                            break;
                        }
                    }
                }
            }
            if self.runs >= self.budget || Instant::now() > self.deadline {
                break;
            }
        }
        // finally drop the contents nothing refers to any more (pure renumbering, then re-checked)
        let pruned = prune_contents(&cur);
        if pruned.contents.len() < cur.contents.len() && self.fails(&pruned) {
            cur = pruned;
        }
        cur
    }
}

/// Remove contents that no file, operation, typed base or fault refers to, renumbering the rest.
pub fn prune_contents(sc: &Scenario) -> Scenario {
    use crate::scn::{Content, Fault};
    let n = sc.contents.len();
    let mut used = vec![false; n];
    let mut mark = |i: usize, used: &mut Vec<bool>| {
        if i < n {
            used[i] = true;
        }
    };
    for f in &sc.files {
        mark(f.cid, &mut used);
        if let Some(p) = f.prev {
            mark(p, &mut used);
        }
    }
    for a in &sc.actors {
        for op in &a.ops {
            match op {
                Op::Decode { cid, fault, .. } => {
                    mark(*cid, &mut used);
                    if let Some(Fault::Torn(c, _)) = fault {
                        mark(*c, &mut used);
                    }
                }
                Op::Install { cid, .. } | Op::BeginUpgrade { cid, .. } | Op::AtomicReplace { cid, .. } | Op::LiveInstall { cid, .. } => mark(*cid, &mut used),
                _ => {}
            }
        }
    }
    for f in sc.faults.values() {
        if let Fault::Torn(c, _) = f {
            mark(*c, &mut used);
        }
    }
    // typed contents keep their base alive
    loop {
        let mut changed = false;
        for (i, c) in sc.contents.iter().enumerate() {
            if used[i] {
                if let Content::Typed { base, .. } = c {
                    if *base < n && !used[*base] {
                        used[*base] = true;
                        changed = true;
                    }
                }
            }
        }
        if !changed {
            break;
        }
    }
    let mut map = vec![0usize; n];
    let mut k = 0;
    for i in 0..n {
        map[i] = k;
        if used[i] {
            k += 1;
        }
    }
    let mut out = sc.clone();
    out.contents = sc.contents.iter().enumerate().filter(|(i, _)| used[*i]).map(|(_, c)| c.clone()).collect();
    let re = |i: usize| if i < n { map[i] } else { i };
    for c in out.contents.iter_mut() {
        if let Content::Typed { base, .. } = c {
            *base = re(*base);
        }
    }
    for f in out.files.iter_mut() {
        f.cid = re(f.cid);
        f.prev = f.prev.map(re);
    }
    for a in out.actors.iter_mut() {
        for op in a.ops.iter_mut() {
            match op {
                Op::Decode { cid, fault, .. } => {
                    *cid = re(*cid);
                    if let Some(Fault::Torn(c, _)) = fault {
                        *c = re(*c);
                    }
                }
                Op::Install { cid, .. } | Op::BeginUpgrade { cid, .. } | Op::AtomicReplace { cid, .. } | Op::LiveInstall { cid, .. } => *cid = re(*cid),
                _ => {}
            }
        }
    }
    for f in out.faults.values_mut() {
        if let Fault::Torn(c, _) = f {
            *c = re(*c);
        }
    }
    out
}
