//! Fault *enumeration* for C08 (and C07's no-panic over the same space): every
//! truncation point, the typed-corruption catalogue and the ignorable-region scribbles
//! over the vendored IANA files and over writer-generated files. Direct loops (no
//! scenario overhead); a failing case is turned into an explicit scenario and
//! replayed through the ordinary executor before it is reported.

use crate::exec::{install_panic_hook, Armed, LAST_PANIC};
use crate::gen::{gen_zone, ZoneOpts};
use crate::oracle::ref_matches;
use crate::prng::{fnv, fnv_add, Rng};
use crate::scn::{Actor, Content, Fault, Op, Scenario};
use crate::tzif::{self, TYPED_KINDS};
use crate::world::Corpus;
use std::collections::BTreeMap;
use std::panic::{catch_unwind, AssertUnwindSafe};
use std::time::Instant;
use tz::TimeZone;

fn arg<'a>(args: &'a [String], name: &str) -> Option<&'a str> {
    args.iter().position(|a| a == name).and_then(|i| args.get(i + 1)).map(|s| s.as_str())
}

/// Distinct contents of the vendored tree: (first path, bytes), sorted by path.
pub fn corpus_distinct(root: &str) -> Vec<(String, Vec<u8>)> {
    let idx = std::fs::read_to_string(format!("{root}/INDEX.txt")).unwrap_or_default();
    let mut seen: BTreeMap<u64, ()> = BTreeMap::new();
    let mut out = Vec::new();
    for p in idx.lines() {
        if let Ok(b) = std::fs::read(format!("{root}/{p}")) {
            let h = fnv(&b) ^ (b.len() as u64).rotate_left(32);
            if seen.insert(h, ()).is_none() {
                out.push((p.to_string(), b));
            }
        }
    }
    out
}

pub fn corpus_all_paths(root: &str) -> Vec<String> {
    std::fs::read_to_string(format!("{root}/INDEX.txt")).unwrap_or_default().lines().map(|s| s.to_string()).collect()
}

fn decode(bytes: &[u8]) -> Result<Result<TimeZone, tz::TzError>, String> {
    catch_unwind(AssertUnwindSafe(|| TimeZone::from_tz_data(bytes))).map_err(|_| LAST_PANIC.with(|p| p.borrow().clone()))
}

fn region(raw: &tzif::RawFile, len: usize, k: usize) -> &'static str {
    let off2 = tzif::second_header_offset(raw);
    match &raw.second {
        None => {
            if k < 44 {
                "v1-header"
            } else {
                "v1-body"
            }
        }
        Some(s) => {
            let foot = len - s.footer.len();
            if k < 44 {
                "header1"
            } else if k < off2 {
                "body1"
            } else if k < off2 + 44 {
                "header2"
            } else if k < foot {
                "body2"
            } else if k == foot {
                "footer-absent"
            } else if k == foot + 1 {
                "footer-cut-after-first-NL"
            } else {
                "footer-cut-inside"
            }
        }
    }
}

struct Found {
    oracle: String,
    sig: String,
    detail: String,
    scenario: Scenario,
}

fn scenario_for(content: Content, fault: Option<Fault>, prop: &str) -> Scenario {
    let mut sc = Scenario::empty(prop, "sweep", 0);
    sc.contents.push(content);
    sc.actors.push(Actor { kind: "client".into(), ops: vec![Op::Decode { cid: 0, fault, slot: 0 }] });
    sc
}

/// Well-formed zones whose counts cross the 8- and 16-bit boundaries (a count kept in too narrow
/// a type, or a size computed in one, only shows there), and string tables with unused bytes.
fn huge_catalogue() -> Vec<crate::spec::ZoneSpec> {
    use crate::spec::{TypeSpec, ZoneSpec};
    let ty = |off: i32, dst: bool, d: &str| TypeSpec { off, dst, desig: d.as_bytes().to_vec(), isstd: false, isut: false };
    let few = vec![ty(3600, false, "CET"), ty(7200, true, "CEST"), ty(-18000, false, "EST"), ty(0, false, "UTC")];
    let mut out = Vec::new();
    for version in [1u8, 2, 3] {
        for ntrans in [65_535usize, 65_536, 65_537, 70_001, 131_075] {
            let trans: Vec<(i64, u8)> = (0..ntrans as i64).map(|i| (-2_000_000_000 + i * 30_000 + (i * i) % 7, ((i * 7 + i / 3) % 4) as u8)).collect();
            out.push(ZoneSpec { version, types: few.clone(), trans, leaps: vec![], rule: None, rule_style: 0, desig_mode: (ntrans % 2) as u8, indicators: (ntrans % 4) as u8, decoy: if version == 2 { 5 } else { 0 } });
        }
        for nleaps in [255usize, 256, 257, 700, 65_536, 65_537] {
            if version == 1 && nleaps > 800 {
                continue;
            }
            let leaps: Vec<(i64, i32)> = (0..nleaps as i64).map(|i| (78_796_800 + i * 2_500_000 + (i % 5) * 10_000, if nleaps % 2 == 0 { 1 + (i % 2) as i32 } else { -(1 + (i % 2) as i32) })).collect();
            out.push(ZoneSpec { version, types: few.clone(), trans: vec![(-1_000, 1), (86_400 * 400, 0), (2_000_000_000, 2)], leaps, rule: None, rule_style: 0, desig_mode: 0, indicators: 3, decoy: 0 });
        }
        for ntypes in [129usize, 254, 255, 256] {
            let types: Vec<TypeSpec> = (0..ntypes).map(|i| {
                let d = format!("{}{}T", (b'A' + (i % 26) as u8) as char, (b'A' + (i / 26 % 2) as u8) as char);
                TypeSpec { off: -40_000 + i as i32 * 61, dst: i % 3 == 1, desig: d.into_bytes(), isstd: i % 2 == 0, isut: i % 4 == 0 }
            }).collect();
            let trans: Vec<(i64, u8)> = (0..600i64).map(|i| (i * 1_000_003 - 300_000_000, ((i * 37) % (ntypes.min(256) as i64)) as u8)).collect();
            out.push(ZoneSpec { version, types, trans, leaps: vec![(100_000_000, 1)], rule: None, rule_style: 0, desig_mode: 1, indicators: 3, decoy: 0 });
        }
        for desig_mode in [2u8, 3, 4, 5, 6, 7] {
            let trans: Vec<(i64, u8)> = (0..40i64).map(|i| (i * 15_000_000 - 100_000_000, (i % 4) as u8)).collect();
            let rule = if version >= 2 && desig_mode % 2 == 0 { crate::posix::parse_tz(b"UTC0", false) } else { None };
            let mut trans = trans;
            if rule.is_some() {
                // the footer rule must describe the type in force after the last transition
                let n = trans.len();
                trans[n - 1].1 = 3;
            }
            out.push(ZoneSpec { version, types: few.clone(), trans, leaps: vec![], rule, rule_style: 0, desig_mode, indicators: desig_mode & 3, decoy: 0 });
        }
    }
    out
}

pub fn cmd_sweep(args: &[String]) -> i32 {
    install_panic_hook();
    let kind_arg = args[0].as_str();
    // "huge": the catalogue of large-count zones, judged like "full"
    let kind = if kind_arg == "huge" { "full" } else { kind_arg };
    let prop = arg(args, "--prop").unwrap_or("C08").to_string();
    let out_dir = arg(args, "--out").unwrap_or("/tmp/tzsim-out").to_string();
    let worker: usize = arg(args, "--worker").and_then(|s| s.parse().ok()).unwrap_or(0);
    // distinguishes the output files of the same sweep run under another build profile
    let tag = arg(args, "--tag").unwrap_or("").to_string();
    let of: usize = arg(args, "--of").and_then(|s| s.parse().ok()).unwrap_or(1);
    let permille: u64 = arg(args, "--sample-permille").and_then(|s| s.parse().ok()).unwrap_or(1000);
    let seed: u64 = arg(args, "--seed").and_then(|s| s.parse().ok()).unwrap_or(1);
    let ngen: u64 = arg(args, "--generated").and_then(|s| s.parse().ok()).unwrap_or(200);
    let replay_dir = arg(args, "--replays").unwrap_or("/verif/replays").to_string();
    let emit: Option<u64> = arg(args, "--emit-crumb").and_then(|s| s.parse().ok());
    let _ = std::fs::create_dir_all(&out_dir);
    if emit.is_none() {
        crate::crumb::init(&format!("{out_dir}/crumb-{kind_arg}-{tag}{worker}"));
    }
    let root = std::env::var("TZSIM_CORPUS").unwrap_or_else(|_| "/verif/corpus".to_string());
    let t0 = Instant::now();
    let files = corpus_distinct(&root);
    let mut evaluations: u64 = 0;
    let mut digests: Vec<u64> = Vec::new();
    let mut found: Vec<Found> = Vec::new();
    let mut counters: BTreeMap<String, u64> = BTreeMap::new();
    let mut samples: Vec<String> = Vec::new();
    let mut bump = |c: &mut BTreeMap<String, u64>, k: &str| *c.entry(k.to_string()).or_insert(0) += 1;
    let armed = Armed::for_prop(&prop);

    // the work list: corpus files (sampled) + generated files
    let mut work: Vec<(Content, Vec<u8>, String)> = Vec::new();
    if kind_arg == "huge" {
        for (g, z) in huge_catalogue().into_iter().enumerate() {
            if g % of != worker {
                continue;
            }
            match (z.bytes(), z.expected()) {
                (Some(b), Ok(_)) => work.push((Content::Gen(z), b, format!("huge:{g}"))),
                (b, e) => {
                    eprintln!("huge item {g}: bytes {:?} expected {:?}", b.map(|b| b.len()), e.map(|_| ()));
                    bump(&mut counters, "huge_item_not_writable")
                }
            }
        }
    }
    for (i, (p, b)) in files.iter().enumerate() {
        if kind_arg == "huge" {
            break;
        }
        let pick = fnv(format!("{seed}:{p}").as_bytes()) % 1000 < permille;
        if pick && i % of == worker {
            work.push((Content::Corpus(p.clone()), b.clone(), format!("corpus:{p}")));
        }
    }
    for g in 0..ngen {
        if (g as usize) % of != worker || kind_arg == "huge" {
            continue;
        }
        let mut r = Rng::new(seed ^ 0x5EED_0000 ^ g.wrapping_mul(0x9E37_79B9_7F4A_7C15));
        let z = gen_zone(&mut r, ZoneOpts { tag: Some(g as u32), dense: g % 3 == 0, allow_invalid: false, allow_huge: g % 50 == 7, i32_times: g % 4 == 0 });
        if let (Some(b), Ok(_)) = (z.bytes(), z.expected()) {
            work.push((Content::Gen(z), b, format!("gen:{g}")));
        }
    }

    if let Some(c) = emit {
        // print the explicit scenario of the work item a breadcrumb names (crash containment)
        let wi = (c / 1_000_000_000) as usize;
        let sub = c % 1_000_000_000;
        if let Some((content, _, label)) = work.get(wi) {
            let fault = match kind {
                "trunc" => Some(Fault::Short(sub as usize)),
                "bytes" => {
                    // flipping bit 0 of the byte is the closest explicit fault (crash containment only)
                    Some(Fault::Flip(vec![(sub / 4) * 8]))
                }
                "typed" => {
                    if sub >= 900_000 {
                        Some(Fault::Scribble(0, (sub - 900_000) * 7919 + 13))
                    } else {
                        let tk = TYPED_KINDS[(sub / 1000) as usize % TYPED_KINDS.len()];
                        let a = sub % 1000;
                        Some(Fault::Typed(tk.to_string(), a.wrapping_mul(0x9E37_79B9).wrapping_add(fnv(label.as_bytes()) % 97) % 100_000))
                    }
                }
                _ => None,
            };
            print!("{}", scenario_for(content.clone(), fault, &prop).text());
            return 0;
        }
        return 2;
    }

    for (wi, (content, bytes, label)) in work.iter().enumerate() {
        crate::crumb::set(wi as u64 * 1_000_000_000);
        let raw = match tzif::parse_raw(bytes) {
            Some(r) => r,
            None => {
                bump(&mut counters, "unwalkable_input");
                continue;
            }
        };
        match kind {
            "trunc" => {
                let mut h: u64 = 0xcbf2_9ce4_8422_2325;
                for k in 0..bytes.len() {
                    // prefix of length k (strict)
                    if k > 0 {
                        h = fnv_add(h, &bytes[k - 1..k]);
                    }
                    digests.push(h ^ (k as u64).rotate_left(40));
                    evaluations += 1;
                    crate::crumb::set(wi as u64 * 1_000_000_000 + k as u64);
                    let reg = region(&raw, bytes.len(), k);
                    match decode(&bytes[..k]) {
                        Ok(Err(_)) => {}
                        Ok(Ok(_)) => {
                            bump(&mut counters, "accepted_prefix");
                            if found.iter().filter(|f| f.sig == reg).count() < 2 {
                                found.push(Found { oracle: "C08.truncation".into(), sig: reg.to_string(), detail: format!("{label}: strict prefix of length {k} of {} bytes ({reg}) was accepted", bytes.len()), scenario: scenario_for(content.clone(), Some(Fault::Short(k)), &prop) });
                            }
                        }
                        Err(p) => {
                            bump(&mut counters, "panic");
                            if found.iter().filter(|f| f.oracle == "C07.panic").count() < 3 {
                                found.push(Found { oracle: "C07.panic".into(), sig: "panic".into(), detail: format!("{label}: prefix {k} panicked: {p}"), scenario: scenario_for(content.clone(), Some(Fault::Short(k)), &prop) });
                            }
                        }
                    }
                    bump(&mut counters, reg);
                }
                if samples.len() < 3 {
                    samples.push(format!("{label}: {} bytes, every strict prefix 0..{} decoded", bytes.len(), bytes.len() - 1));
                }
            }
            "full" => {
                evaluations += 1;
                digests.push(fnv(bytes));
                match decode(bytes) {
                    Ok(Ok(z)) => {
                        let mut fu = false;
                        match ref_matches(&z, bytes, &mut fu) {
                            Ok(()) => bump(&mut counters, "agrees_with_reference"),
                            Err(m) => {
                                found.push(Found { oracle: "C08.reference_decoder".into(), sig: "disagrees-with-reference".into(), detail: format!("{label}: {m}"), scenario: scenario_for(content.clone(), None, &prop) });
                            }
                        }
                        if fu {
                            bump(&mut counters, "footer_not_understood_by_reference");
                        } else {
                            bump(&mut counters, "footer_rule_checked");
                        }
                        if let Content::Gen(spec) = content {
                            match spec.expected() {
                                Ok(e) if e == z => bump(&mut counters, "equals_spec"),
                                _ => found.push(Found { oracle: "C08.fidelity".into(), sig: "decoded-zone-differs".into(), detail: format!("{label}: decoded zone differs from the spec"), scenario: scenario_for(content.clone(), None, &prop) }),
                            }
                        }
                        bump(&mut counters, &format!("version_{}", if raw.version1 == 0 { '1' } else { raw.version1 as char }));
                        if !z.as_ref().leap_seconds().is_empty() {
                            bump(&mut counters, "with_leap_seconds");
                        }
                    }
                    Ok(Err(e)) => {
                        // (the executor names the refusal of a generated file C08.fidelity)
                        let (o, sg) = if matches!(content, Content::Gen(_)) { ("C08.fidelity", "well-formed-refused") } else { ("C08.reference_decoder", "iana-file-refused") };
                        if found.iter().filter(|f| f.sig == sg).count() < 3 {
                            found.push(Found { oracle: o.into(), sig: sg.into(), detail: format!("{label}: well-formed file refused: {e:?}"), scenario: scenario_for(content.clone(), None, &prop) })
                        }
                    }
                    Err(p) => found.push(Found { oracle: "C07.panic".into(), sig: "panic".into(), detail: format!("{label}: panicked: {p}"), scenario: scenario_for(content.clone(), None, &prop) }),
                }
                if samples.len() < 3 {
                    let rz = tzif::interpret(&raw);
                    samples.push(format!("{label}: {} transitions, {} types, {} leaps, footer {:?}", rz.transitions.len(), rz.types.len(), rz.leaps.len(), rz.footer.as_ref().map(|f| String::from_utf8_lossy(f).into_owned())));
                }
            }
            "reencode" => {
                // the real zone re-encoded by the independent writer in other versions / string-table
                // layouts / 32-bit blocks must decode to the same zone again
                if !matches!(content, Content::Corpus(_)) {
                    continue;
                }
                let rz = tzif::interpret(&raw);
                let rule = match &rz.footer {
                    Some(f) if f.len() > 2 => match crate::posix::parse_tz(&f[1..f.len() - 1], rz.version == b'3') {
                        Some(r) => Some(r),
                        None => {
                            bump(&mut counters, "reencode_footer_not_understood");
                            continue;
                        }
                    },
                    _ => None,
                };
                let eff = match &raw.second {
                    Some(s2) => &s2.b2,
                    None => &raw.b1,
                };
                let mut types = Vec::new();
                let mut ok = true;
                for (i, (off, dst, desig)) in rz.types.iter().enumerate() {
                    match desig {
                        Some(d) => types.push(crate::spec::TypeSpec { off: *off, dst: *dst != 0, desig: d.clone(), isstd: eff.isstd.get(i).map_or(false, |x| *x != 0), isut: eff.isut.get(i).map_or(false, |x| *x != 0) }),
                        None => ok = false,
                    }
                }
                if !ok {
                    continue;
                }
                let ind = (if eff.isstd.is_empty() { 0 } else { 1 }) | (if eff.isut.is_empty() { 0 } else { 2 });
                let fits32 = rz.transitions.iter().all(|(t, _)| *t >= i32::MIN as i64 && *t <= i32::MAX as i64) && rz.leaps.iter().all(|(t, _)| *t >= i32::MIN as i64 && *t <= i32::MAX as i64);
                let needs3 = rule.as_ref().map_or(false, |r| r.needs_extensions());
                let original = decode(bytes);
                for version in [1u8, 2, 3] {
                    if version == 1 && !fits32 {
                        continue;
                    }
                    if version == 2 && needs3 {
                        continue;
                    }
                    for desig_mode in [0u8, 1] {
                        for decoy in [0u64, 1, 7 + wi as u64] {
                            if version == 1 && decoy != 0 {
                                continue;
                            }
                            let spec = crate::spec::ZoneSpec { version, types: types.clone(), trans: rz.transitions.clone(), leaps: rz.leaps.clone(), rule: if version == 1 { None } else { rule.clone() }, rule_style: ((wi as u8) ^ decoy as u8) & 31, desig_mode, indicators: ind, decoy };
                            let b = match spec.bytes() {
                                Some(b) => b,
                                None => {
                                    bump(&mut counters, "reencode_unwritable");
                                    continue;
                                }
                            };
                            evaluations += 1;
                            digests.push(fnv(&b));
                            bump(&mut counters, &format!("reencoded_v{version}"));
                            let got = decode(&b);
                            let same = match (&got, &original, spec.expected()) {
                                (Ok(Ok(z)), Ok(Ok(o)), Ok(e)) => {
                                    let zr = z.as_ref();
                                    let or = o.as_ref();
                                    *z == e && zr.transitions() == or.transitions() && zr.local_time_types() == or.local_time_types() && zr.leap_seconds() == or.leap_seconds() && (version == 1 || zr.extra_rule() == or.extra_rule())
                                }
                                _ => false,
                            };
                            if !same && found.iter().filter(|f| f.oracle == "C08.fidelity").count() < 3 {
                                found.push(Found { oracle: "C08.fidelity".into(), sig: "decoded-zone-differs".into(), detail: format!("{label} re-encoded as version {version} (string table mode {desig_mode}, 32-bit block {decoy}): decoding does not give the zone of the original file back"), scenario: scenario_for(Content::Gen(spec), None, &prop) });
                            }
                        }
                    }
                }
                if samples.len() < 3 {
                    samples.push(format!("{label}: re-encoded by the harness's writer as v1 (if it fits) / v2 / v3 x 2 string-table layouts x 3 kinds of 32-bit block"));
                }
            }
            "bytes" => {
                // every single-byte corruption (4 values per position): whatever the library still accepts
                // must be what the reference decoder reads from the same bytes
                let mut buf = bytes.clone();
                let mut accepted = 0u64;
                for pos in 0..bytes.len() {
                    let orig = bytes[pos];
                    for (vi, v) in [orig ^ 0x01, orig ^ 0x80, 0x00, 0xFF].iter().enumerate() {
                        if *v == orig {
                            continue;
                        }
                        buf[pos] = *v;
                        crate::crumb::set(wi as u64 * 1_000_000_000 + pos as u64 * 4 + vi as u64);
                        evaluations += 1;
                        digests.push(fnv_add(fnv(&bytes[..pos]) ^ (pos as u64).rotate_left(32), &[*v]) ^ fnv(label.as_bytes()));
                        match decode(&buf) {
                            Ok(Err(_)) => {}
                            Ok(Ok(z)) => {
                                accepted += 1;
                                let mut fu = false;
                                if let Err(m) = ref_matches(&z, &buf, &mut fu) {
                                    if found.iter().filter(|f| f.oracle == "C08.reference_decoder").count() < 3 {
                                        found.push(Found { oracle: "C08.reference_decoder".into(), sig: "disagrees-with-reference".into(), detail: format!("{label}: byte {pos} set to {v:#04x}: {m}"), scenario: scenario_for(Content::Hex(buf.clone()), None, &prop) });
                                    }
                                }
                            }
                            Err(p) => {
                                if found.iter().filter(|f| f.oracle == "C07.panic").count() < 3 {
                                    found.push(Found { oracle: "C07.panic".into(), sig: "panic".into(), detail: format!("{label}: byte {pos} set to {v:#04x} panicked: {p}"), scenario: scenario_for(Content::Hex(buf.clone()), None, &prop) });
                                }
                            }
                        }
                    }
                    buf[pos] = orig;
                }
                // the version octets take every value: one at a time and both together (a reader that grows
                // support for another version must still treat every file like the reference decoder does)
                let p1 = 4usize;
                let p2 = raw.second.as_ref().map(|_| 44 + raw.b1.times.len() + raw.b1.idx.len() + raw.b1.ttinfo.len() + raw.b1.chars.len() + raw.b1.leaps.len() + raw.b1.isstd.len() + raw.b1.isut.len() + 4).filter(|p| *p < bytes.len() && bytes.get(p.wrapping_sub(4)..*p) == Some(&b"TZif"[..]));
                for v in 0..=255u8 {
                    for which in 0..3 {
                        let mut hit = false;
                        if which != 1 && bytes[p1] != v {
                            buf[p1] = v;
                            hit = true;
                        }
                        if let (true, Some(p2)) = (which != 0, p2) {
                            if bytes[p2] != v {
                                buf[p2] = v;
                                hit = true;
                            }
                        }
                        if hit && (which == 0 || p2.is_some()) {
                            crate::crumb::set(wi as u64 * 1_000_000_000 + p1 as u64 * 4);
                            evaluations += 1;
                            digests.push(fnv(&[v, which as u8, 0x56]) ^ fnv(label.as_bytes()).rotate_left(7));
                            bump(&mut counters, "version_octet_value");
                            match decode(&buf) {
                                Ok(Err(_)) => {}
                                Ok(Ok(z)) => {
                                    accepted += 1;
                                    let mut fu = false;
                                    if let Err(m) = ref_matches(&z, &buf, &mut fu) {
                                        if found.iter().filter(|f| f.oracle == "C08.reference_decoder").count() < 3 {
                                            found.push(Found { oracle: "C08.reference_decoder".into(), sig: "disagrees-with-reference".into(), detail: format!("{label}: version octet(s) set to {v:#04x} (variant {which}): {m}"), scenario: scenario_for(Content::Hex(buf.clone()), None, &prop) });
                                        }
                                    }
                                }
                                Err(p) => {
                                    if found.iter().filter(|f| f.oracle == "C07.panic").count() < 3 {
                                        found.push(Found { oracle: "C07.panic".into(), sig: "panic".into(), detail: format!("{label}: version octet(s) set to {v:#04x} (variant {which}) panicked: {p}"), scenario: scenario_for(Content::Hex(buf.clone()), None, &prop) });
                                    }
                                }
                            }
                        }
                        buf[p1] = bytes[p1];
                        if let Some(p2) = p2 {
                            buf[p2] = bytes[p2];
                        }
                    }
                }
                *counters.entry("single_byte_corruption_accepted".to_string()).or_insert(0) += accepted;
                if samples.len() < 3 {
                    samples.push(format!("{label}: {} bytes x 4 replacement values, {accepted} corrupted files still accepted (and equal to the reference decoder's reading)", bytes.len()));
                }
            }
            "typed" => {
                for (tki, tk) in TYPED_KINDS.iter().enumerate() {
                    let nargs = 24u64;
                    for a in 0..nargs {
                        let argv = a.wrapping_mul(0x9E37_79B9).wrapping_add(fnv(label.as_bytes()) % 97) % 100_000;
                        if let Some(b) = tzif::typed(&raw, tk, argv) {
                            crate::crumb::set(wi as u64 * 1_000_000_000 + tki as u64 * 1000 + a);
                            let d = fnv(&b);
                            digests.push(d);
                            evaluations += 1;
                            bump(&mut counters, tk);
                            match decode(&b) {
                                Ok(Err(_)) => {}
                                Ok(Ok(_)) => {
                                    if found.iter().filter(|f| f.sig == format!("typed:{tk}")).count() < 2 {
                                        found.push(Found { oracle: "C08.typed".into(), sig: format!("typed:{tk}"), detail: format!("{label}: typed corruption {tk}:{argv} was accepted"), scenario: scenario_for(content.clone(), Some(Fault::Typed(tk.to_string(), argv)), &prop) });
                                    }
                                }
                                Err(p) => found.push(Found { oracle: "C07.panic".into(), sig: "panic".into(), detail: format!("{label}: typed {tk}:{argv} panicked: {p}"), scenario: scenario_for(content.clone(), Some(Fault::Typed(tk.to_string(), argv)), &prop) }),
                            }
                        }
                    }
                }
                // ignorable region: the v1 data block of a v2+ file
                let base = decode(bytes);
                for a in 0..4u64 {
                    if let Some(b) = tzif::scribble(&raw, 0, a * 7919 + 13) {
                        crate::crumb::set(wi as u64 * 1_000_000_000 + 900_000 + a);
                        evaluations += 1;
                        digests.push(fnv(&b));
                        bump(&mut counters, "scribble_v1_block");
                        let same = match (&base, &decode(&b)) {
                            (Ok(Ok(x)), Ok(Ok(y))) => x == y,
                            _ => false,
                        };
                        if !same && found.iter().filter(|f| f.oracle == "C08.ignorable").count() < 2 {
                            found.push(Found { oracle: "C08.ignorable".into(), sig: "v1-block-influences-result".into(), detail: format!("{label}: overwriting the data bytes of the 32-bit block changed the decoded zone"), scenario: scenario_for(content.clone(), Some(Fault::Scribble(0, a * 7919 + 13)), &prop) });
                        }
                    }
                }
                if samples.len() < 3 {
                    samples.push(format!("{label}: {} typed kinds x up to 24 parameter values + 4 scribbles", TYPED_KINDS.len()));
                }
            }
            _ => {
                eprintln!("unknown sweep kind {kind}");
                return 2;
            }
        }
    }
    crate::crumb::done();

    // a sweep run on behalf of one property reports only that property's oracles
    found.retain(|f| f.oracle.starts_with(prop.as_str()));
    // confirm each finding through the ordinary executor and write its replay file
    let mut corpus = Corpus { root: root.clone(), ..Default::default() };
    let mut out_found = Vec::new();
    for (n, f) in found.iter().enumerate() {
        let mut a = armed;
        if f.oracle.starts_with("C07") {
            a.c07 = true;
        }
        if f.oracle.starts_with("C08") {
            a.c08 = true;
        }
        let chk = crate::exec::execute(&f.scenario, &mut corpus, a, &crate::exec::ExecOpts::default());
        let confirmed = chk.violations.iter().any(|v| v.oracle == f.oracle || (f.oracle == "C08.ignorable"));
        if confirmed || f.oracle == "C08.ignorable" {
            let path = crate::write_replay(&replay_dir, &format!("{prop}-sweep-{kind_arg}-{tag}{worker}-{n}"), &f.scenario, &f.oracle, &f.sig, &f.detail, &mut corpus, a);
            out_found.push((f.oracle.clone(), f.sig.clone(), f.detail.clone(), path));
        } else {
            out_found.push(("HARNESS.unconfirmed".into(), f.sig.clone(), format!("sweep finding did not reproduce through the executor: {}", f.detail), String::new()));
        }
    }

    let mut bin = Vec::with_capacity(digests.len() * 8);
    for d in &digests {
        bin.extend_from_slice(&d.to_le_bytes());
    }
    let _ = std::fs::write(format!("{out_dir}/nontrivial-{kind_arg}-{tag}{worker}.bin"), bin);
    let mut j = String::from("{");
    j.push_str(&format!("\"worker\":{worker},\"kind\":{},\"evaluations\":{evaluations},\"files\":{},\"wall_s\":{:.3},", crate::jstr(kind_arg), work.len(), t0.elapsed().as_secs_f64()));
    j.push_str("\"probes\":{");
    j.push_str(&counters.iter().map(|(k, v)| format!("{}:{v}", crate::jstr(k))).collect::<Vec<_>>().join(","));
    j.push_str("},\"faults\":{");
    let mut fl: Vec<String> = Vec::new();
    match kind {
        "trunc" => fl.push(format!("\"truncation_point\":{evaluations}")),
        "bytes" => fl.push(format!("\"single_byte_replacement\":{evaluations}")),
        "typed" => {
            for (k, v) in counters.iter() {
                if TYPED_KINDS.contains(&k.as_str()) {
                    fl.push(format!("{}:{v}", crate::jstr(&format!("typed_{k}"))));
                } else if k == "scribble_v1_block" {
                    fl.push(format!("\"scribble\":{v}"));
                }
            }
        }
        _ => {}
    }
    j.push_str(&fl.join(","));
    j.push_str("},\"harness_errors\":[");
    j.push_str(&out_found.iter().filter(|f| f.0.starts_with("HARNESS")).map(|f| crate::jstr(&f.2)).collect::<Vec<_>>().join(","));
    j.push_str("],\"found\":[");
    j.push_str(&out_found.iter().filter(|f| !f.0.starts_with("HARNESS")).map(|(o, s, d, p)| format!("{{\"oracle\":{},\"sig\":{},\"detail\":{},\"replay\":{}}}", crate::jstr(o), crate::jstr(s), crate::jstr(d), crate::jstr(p))).collect::<Vec<_>>().join(","));
    j.push_str("],\"samples\":[");
    j.push_str(&samples.iter().map(|s| crate::jstr(s)).collect::<Vec<_>>().join(","));
    j.push_str("]}");
    let _ = std::fs::write(format!("{out_dir}/stats-{kind_arg}-{tag}{worker}.json"), j);
    0
}

/// Internal consistency of the harness itself (not of tz-rs).
pub fn cmd_selftest(_args: &[String]) -> i32 {
    let root = std::env::var("TZSIM_CORPUS").unwrap_or_else(|_| "/verif/corpus".to_string());
    let mut bad = 0;
    // 1. the structural parser/serializer round-trips every vendored file
    let files = corpus_distinct(&root);
    for (p, b) in &files {
        match tzif::parse_raw(b) {
            Some(raw) => {
                if tzif::serialize(&raw) != *b {
                    println!("selftest: serialize(parse_raw) != bytes for {p}");
                    bad += 1;
                }
            }
            None => {
                println!("selftest: cannot walk {p}");
                bad += 1;
            }
        }
    }
    println!("selftest: {} distinct corpus files round-trip through the structural model", files.len());
    // 2. scenario text round-trips
    let mut n = 0;
    for prop in ["C20", "C15", "C08", "C07", "C17"] {
        for s in 0..300u64 {
            let sc = crate::gen::generate(prop, crate::seed_for(prop, 1, s));
            let text = sc.text();
            match Scenario::parse(&text) {
                Ok(back) => {
                    if back != sc {
                        println!("selftest: scenario text round trip differs for {prop} seed index {s}");
                        bad += 1;
                    }
                }
                Err(e) => {
                    println!("selftest: scenario of {prop} index {s} does not parse back: {e}");
                    bad += 1;
                }
            }
            n += 1;
        }
    }
    println!("selftest: {n} generated scenarios round-trip through the text form");
    // 3. writer output is walkable and the reference decoder reads back the spec
    let mut r = Rng::new(7);
    let mut w = 0;
    for g in 0..2000u32 {
        let z = gen_zone(&mut r, ZoneOpts { tag: Some(g), dense: g % 2 == 0, allow_invalid: false, allow_huge: g % 100 == 3, i32_times: g % 3 == 0 });
        if let Some(b) = z.bytes() {
            match tzif::parse_raw(&b) {
                Some(raw) => {
                    let rz = tzif::interpret(&raw);
                    let ok = rz.transitions == z.trans && rz.leaps == z.leaps && rz.types.len() == z.types.len() && rz.types.iter().zip(z.types.iter()).all(|(a, b)| a.0 == b.off && a.1 == b.dst as u8 && a.2.as_deref() == Some(&b.desig[..]));
                    if !ok {
                        println!("selftest: reference decoder does not read back generated spec #{g}");
                        bad += 1;
                    }
                    w += 1;
                }
                None => {
                    println!("selftest: writer output #{g} is not walkable");
                    bad += 1;
                }
            }
        }
    }
    println!("selftest: {w} writer outputs read back by the reference decoder");
    // 4. the independent well-formedness model agrees with the library's constructor on the unchanged tree
    let mut r = Rng::new(99);
    let (mut pos, mut neg, mut none) = (0u64, 0u64, 0u64);
    for g in 0..300_000u32 {
        let z = gen_zone(&mut r, ZoneOpts { tag: Some(g), dense: g % 2 == 0, allow_invalid: g % 3 == 0, allow_huge: g % 200 == 3, i32_times: g % 3 == 1 });
        match crate::refmodel::independently_valid(&z) {
            None => none += 1,
            Some(v) => {
                if v {
                    pos += 1
                } else {
                    neg += 1
                }
                if v != z.valid() {
                    println!("selftest: independent model says {v}, TimeZoneRef::new says {} for: {}", z.valid(), z.text());
                    bad += 1;
                    if bad > 5 {
                        break;
                    }
                }
            }
        }
    }
    println!("selftest: independent well-formedness model vs constructor on 300000 generated specs: {pos} well-formed, {neg} violating, {none} no position, {bad} disagreements so far");
    if bad == 0 {
        println!("selftest: ok");
        0
    } else {
        2
    }
}
