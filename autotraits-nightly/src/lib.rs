//! C15 tier C (nightly half): no public type has interior mutability.
//! `core::marker::Freeze` is the compiler's own "contains no UnsafeCell outside an
//! indirection" marker; it is unstable, so this crate is built with the nightly toolchain.
#![feature(freeze)]

use core::marker::Freeze;
use tz::datetime::{DateTime, FoundDateTimeKind, FoundDateTimeList, FoundDateTimeListRefMut, UtcDateTime};
use tz::error::datetime::DateTimeError;
use tz::error::parse::{ParseDataError, TzFileError, TzStringError};
use tz::error::timezone::{LocalTimeTypeError, TimeZoneError, TransitionRuleError};
use tz::timezone::{AlternateTime, Julian0WithLeap, Julian1WithoutLeap, LeapSecond, LocalTimeType, MonthWeekDay, RuleDay, TimeZone, TimeZoneRef, TimeZoneSettings, Transition, TransitionRule};
use tz::{Error, TzError};

fn frozen<T: Freeze>() {}

pub fn gate() {
    frozen::<TimeZone>();
    frozen::<TimeZoneRef<'_>>();
    frozen::<TimeZoneSettings<'_>>();
    frozen::<LocalTimeType>();
    frozen::<Transition>();
    frozen::<LeapSecond>();
    frozen::<TransitionRule>();
    frozen::<AlternateTime>();
    frozen::<RuleDay>();
    frozen::<MonthWeekDay>();
    frozen::<Julian0WithLeap>();
    frozen::<Julian1WithoutLeap>();
    frozen::<DateTime>();
    frozen::<UtcDateTime>();
    frozen::<FoundDateTimeKind>();
    frozen::<FoundDateTimeList>();
    frozen::<FoundDateTimeListRefMut<'_>>();
    frozen::<TzError>();
    frozen::<Error>();
    frozen::<DateTimeError>();
    frozen::<ParseDataError>();
    frozen::<TzFileError>();
    frozen::<TzStringError>();
    frozen::<LocalTimeTypeError>();
    frozen::<TimeZoneError>();
    frozen::<TransitionRuleError>();
}
