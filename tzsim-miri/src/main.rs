//! C15 tier B: instruction-granularity schedules under Miri.
//!
//! A dense multi-threaded workload over shared zones on a deliberately tiny set of
//! instants. Oracle: every call's digest equals the digest of the same call computed
//! single-threaded in a prologue (and again in an epilogue, in reverse order). Miri
//! additionally reports data races, deadlocks and undefined behaviour. The workload
//! seed comes from argv (never from the environment); the schedule from
//! -Zmiri-many-seeds / -Zmiri-seed, so (workload seed, miri seed, preemption rate) is
//! one exactly repeatable execution.

#[path = "../../tzsim/src/prng.rs"]
#[allow(dead_code)]
mod prng;

use prng::Rng;
use std::fmt::Write;
use std::sync::Arc;
use tz::datetime::{DateTime, UtcDateTime};
use tz::timezone::{AlternateTime, LocalTimeType, MonthWeekDay, RuleDay, TimeZoneRef, TimeZoneSettings, Transition, TransitionRule};
use tz::TimeZone;

static PARIS: &[u8] = include_bytes!("../../corpus/Pacific/Honolulu");
static NEW_YORK: &[u8] = include_bytes!("../../corpus/Africa/Abidjan");
static LORD_HOWE: &[u8] = include_bytes!("../../corpus/Etc/GMT+5");
static RIGHT_UTC: &[u8] = include_bytes!("../../corpus/right/UTC");
static TOKYO: &[u8] = include_bytes!("../../corpus/Asia/Tokyo");

const K_TRANS: &[Transition] = &[Transition::new(0, 1), Transition::new(3600, 0), Transition::new(7200, 1)];
const K_TYPES: &[LocalTimeType] = &[
    match LocalTimeType::new(0, false, Some(b"KAA")) {
        Ok(x) => x,
        Err(_) => panic!(),
    },
    match LocalTimeType::new(7200, true, Some(b"KBB")) {
        Ok(x) => x,
        Err(_) => panic!(),
    },
];
const KZ: TimeZoneRef<'static> = match TimeZoneRef::new(K_TRANS, K_TYPES, &[], &None) {
    Ok(x) => x,
    Err(_) => panic!(),
};

fn embedded_read(path: &str) -> Result<Vec<u8>, Box<dyn std::error::Error + Send + Sync + 'static>> {
    match path {
        "/zi/Europe/Paris" => Ok(PARIS.to_vec()),
        "/zi2/America/New_York" => Ok(NEW_YORK.to_vec()),
        "/zi2/Europe/Paris" => Ok(TOKYO.to_vec()),
        "/etc/localtime" => Ok(LORD_HOWE.to_vec()),
        _ => Err("not found".into()),
    }
}

#[derive(Clone, Debug)]
enum Call {
    Lookup(usize, i64),
    FromTs(usize, i64),
    Find(usize, (i32, u8, u8, u8, u8, u8)),
    FindN(usize, (i32, u8, u8, u8, u8, u8), usize),
    Project(usize, i64, usize),
    Decode(usize),
    Resolve(usize),
    Format(usize, i64),
    /// DateTime::now in one of two fixed zones whose local dates differ at the simulated reading
    Now(usize),
    /// lookup through the owned `TimeZone::find_local_time_type` of one of the rule-only zones
    OwnedLookup(usize, i64),
    /// search in one of the rule-only zones
    RuleFind(usize, (i32, u8, u8, u8, u8, u8), usize),
    UtcNow,
}

const INSTANTS: &[i64] = &[-712150201, -712150200, -1830383032, 0, 3600, 7199, 7200, 1_900_000_000, 78796800, -1];
const FIELDS: &[(i32, u8, u8, u8, u8, u8)] = &[(1947, 6, 8, 2, 15, 0), (1945, 9, 30, 1, 45, 0), (1970, 1, 1, 1, 30, 0), (1970, 1, 1, 0, 30, 0), (2040, 4, 1, 1, 45, 0)];
const TZ_VALUES: &[&str] = &["Europe/Paris", "America/New_York", "localtime", ":Europe/Paris", "EST5EDT,M3.2.0,M11.1.0", "Nowhere/None", "UTC0"];
const FILES: &[&[u8]] = &[PARIS, NEW_YORK, LORD_HOWE, RIGHT_UTC, TOKYO];

struct Zones {
    shared: Vec<Arc<TimeZone>>,
    far_east: TimeZone,
    far_west: TimeZone,
    /// a zone whose answers after its last transition come from an alternate (DST) rule
    rule_zone: TimeZone,
    /// rule-only zones with different rules (EU-like, US-like, southern): same years, different bounds
    rules: Vec<TimeZone>,
}

/// The simulated clock: a constant reading (2023-11-14T22:13:20.5Z), so that every now() has
/// one expected answer and UTC+14 / UTC-12 are on different calendar days.
fn fixed_clock() -> Result<std::time::Duration, std::time::Duration> {
    Ok(std::time::Duration::new(1_700_000_000, 500_000_000))
}

fn zref(z: &Zones, i: usize) -> TimeZoneRef<'_> {
    if i % 7 == 5 {
        return z.rule_zone.as_ref();
    }
    match i % 5 {
        0 => z.shared[0].as_ref().as_ref(),
        1 => z.shared[1].as_ref().as_ref(),
        2 => z.shared[2].as_ref().as_ref(),
        3 => KZ,
        _ => z.shared[3].as_ref().as_ref(),
    }
}

struct H(u64);

impl H {
    fn i(&mut self, v: i64) {
        self.0 = prng::fnv_add(self.0, &v.to_le_bytes());
    }
    fn s(&mut self, v: &str) {
        self.0 = prng::fnv_add(self.0, v.as_bytes());
        self.i(v.len() as i64);
    }
    fn ltt(&mut self, l: &LocalTimeType) {
        self.i(l.ut_offset() as i64);
        self.i(l.is_dst() as i64);
        self.s(l.time_zone_designation());
    }
    fn dt(&mut self, d: &DateTime) {
        for v in [d.year() as i64, d.month() as i64, d.month_day() as i64, d.hour() as i64, d.minute() as i64, d.second() as i64, d.nanoseconds() as i64, d.unix_time()] {
            self.i(v);
        }
        self.ltt(d.local_time_type());
    }
    fn err(&mut self, e: &tz::TzError) {
        // variant only (no formatting machinery under the interpreter)
        self.i(match e {
            tz::TzError::OutOfRange => -1,
            tz::TzError::NoAvailableLocalTimeType => -2,
            tz::TzError::DateTime(_) => -3,
            tz::TzError::TimeZone(_) => -4,
            tz::TzError::TzFile(_) => -5,
            tz::TzError::TzString(_) => -6,
            tz::TzError::LocalTimeType(_) => -7,
            tz::TzError::TransitionRule(_) => -8,
            _ => -9,
        });
    }
    fn found(&mut self, f: &tz::datetime::FoundDateTimeKind) {
        match f {
            tz::datetime::FoundDateTimeKind::Normal(d) => {
                self.i(1);
                self.dt(d)
            }
            tz::datetime::FoundDateTimeKind::Skipped { before_transition, after_transition } => {
                self.i(2);
                self.dt(before_transition);
                self.dt(after_transition)
            }
        }
    }
    fn zone(&mut self, r: TimeZoneRef<'_>) {
        self.i(r.transitions().len() as i64);
        for t in r.transitions() {
            self.i(t.unix_leap_time());
            self.i(t.local_time_type_index() as i64);
        }
        for l in r.local_time_types() {
            self.ltt(l);
        }
        for l in r.leap_seconds() {
            self.i(l.unix_leap_time());
            self.i(l.correction() as i64);
        }
        match r.extra_rule() {
            None => self.i(0),
            Some(tz::timezone::TransitionRule::Fixed(l)) => {
                self.i(1);
                self.ltt(l)
            }
            Some(tz::timezone::TransitionRule::Alternate(a)) => {
                self.i(2);
                self.ltt(a.std());
                self.ltt(a.dst());
                self.i(a.dst_start_time() as i64);
                self.i(a.dst_end_time() as i64);
            }
        }
    }
}

fn eval(z: &Zones, c: &Call) -> u64 {
    let mut h = H(0xcbf2_9ce4_8422_2325);
    match c {
        Call::Lookup(zi, t) => match zref(z, *zi).find_local_time_type(*t) {
            Ok(l) => h.ltt(l),
            Err(e) => h.err(&e),
        },
        Call::FromTs(zi, t) => match DateTime::from_timespec(*t, 7, zref(z, *zi)) {
            Ok(d) => h.dt(&d),
            Err(e) => h.err(&e),
        },
        Call::Find(zi, f) => match DateTime::find(f.0, f.1, f.2, f.3, f.4, f.5, 0, zref(z, *zi)) {
            Ok(l) => {
                for x in l.into_inner() {
                    h.found(&x);
                }
            }
            Err(e) => h.err(&e),
        },
        Call::FindN(zi, f, n) => {
            let mut buf = [None; 3];
            match DateTime::find_n(&mut buf[..*n], f.0, f.1, f.2, f.3, f.4, f.5, 0, zref(z, *zi)) {
                Ok(l) => {
                    h.i(l.count() as i64);
                    h.i(l.is_exhaustive() as i64);
                    for x in l.data().iter().flatten() {
                        h.found(x);
                    }
                }
                Err(e) => h.err(&e),
            }
        }
        Call::Project(zi, t, to) => match UtcDateTime::from_timespec(*t, 0).and_then(|u| u.project(zref(z, *zi))).and_then(|d| d.project(zref(z, *to))) {
            Ok(d) => h.dt(&d),
            Err(e) => h.err(&e),
        },
        Call::Decode(fi) => match TimeZone::from_tz_data(FILES[*fi % FILES.len()]) {
            Ok(t) => h.zone(t.as_ref()),
            Err(e) => h.err(&e),
        },
        Call::Resolve(vi) => {
            let dirs = ["/zi", "/zi2"];
            match TimeZoneSettings::new(&dirs, embedded_read).parse_posix_tz(TZ_VALUES[*vi % TZ_VALUES.len()]) {
                Ok(t) => h.zone(t.as_ref()),
                Err(tz::Error::Io(_)) => h.i(-100),
                Err(tz::Error::Tz(e)) => h.err(&e),
                Err(_) => h.i(-101),
            }
        }
        Call::Now(zi) => {
            let tzr = match zi % 3 {
                0 => z.far_east.as_ref(),
                1 => z.far_west.as_ref(),
                _ => zref(z, *zi),
            };
            match DateTime::now(tzr) {
                Ok(d) => h.dt(&d),
                Err(e) => h.err(&e),
            }
        }
        Call::OwnedLookup(zi, t) => match z.rules[*zi % z.rules.len()].find_local_time_type(*t) {
            Ok(l) => h.ltt(l),
            Err(e) => h.err(&e),
        },
        Call::RuleFind(zi, f, n) => {
            let zr = z.rules[*zi % z.rules.len()].as_ref();
            if *n >= 4 {
                match DateTime::find(f.0, f.1, f.2, f.3, f.4, f.5, 0, zr) {
                    Ok(l) => {
                        for x in l.into_inner() {
                            h.found(&x);
                        }
                    }
                    Err(e) => h.err(&e),
                }
            } else {
                let mut buf = [None; 3];
                match DateTime::find_n(&mut buf[..*n], f.0, f.1, f.2, f.3, f.4, f.5, 0, zr) {
                    Ok(l) => {
                        h.i(l.count() as i64);
                        for x in l.data().iter().flatten() {
                            h.found(x);
                        }
                    }
                    Err(e) => h.err(&e),
                }
            }
        }
        Call::UtcNow => match UtcDateTime::now() {
            Ok(u) => {
                for v in [u.year() as i64, u.month() as i64, u.month_day() as i64, u.hour() as i64, u.minute() as i64, u.second() as i64, u.nanoseconds() as i64] {
                    h.i(v);
                }
            }
            Err(e) => h.err(&e),
        },
        Call::Format(zi, t) => match DateTime::from_timespec(*t, 123, zref(z, *zi)) {
            Ok(d) => {
                let mut s = String::new();
                let _ = write!(s, "{d}");
                h.s(&s)
            }
            Err(e) => h.err(&e),
        },
    }
    h.0
}

fn gen_calls(r: &mut Rng, n: usize, mode: &str) -> Vec<Call> {
    (0..n)
        .map(|_| {
            let zi = r.usize(7);
            let t = *r.pick(INSTANTS);
            let f = *r.pick(FIELDS);
            if mode == "rule" {
                // everything happens in one year (2030): DST bounds of different rules for the same year
                const T2030: &[i64] = &[1899507600, 1900112400, 1900717200, 1901322000, 1919466000, 1920070800, 1920675600, 1921280400, 1893456000, 1908000000];
                const F2030: &[(i32, u8, u8, u8, u8, u8)] = &[(2030, 3, 10, 2, 30, 0), (2030, 3, 31, 2, 30, 0), (2030, 10, 27, 2, 30, 0), (2030, 11, 3, 1, 30, 0), (2030, 4, 7, 2, 30, 0), (2030, 10, 6, 2, 30, 0), (2030, 7, 1, 12, 0, 0)];
                let zi = r.usize(3);
                return match r.below(6) {
                    0 | 1 | 2 => Call::OwnedLookup(zi, *r.pick(T2030) + r.range(-1, 1) * 1800),
                    3 => Call::RuleFind(zi, *r.pick(F2030), 4),
                    _ => Call::RuleFind(zi, *r.pick(F2030), r.usize(4)),
                };
            }
            if mode == "now" {
                return match r.below(8) {
                    0 => Call::UtcNow,
                    1 => Call::Lookup(zi, t),
                    _ => Call::Now(r.usize(2)),
                };
            }
            let heavy = mode == "heavy";
            match r.below(if heavy { 20 } else { 16 }) {
                0..=5 => Call::Lookup(zi, t),
                6 | 7 => Call::FromTs(zi, t),
                8 | 9 => Call::Find(zi, f),
                10 | 11 => Call::FindN(zi, f, r.usize(4)),
                12 | 13 => Call::Project(zi, t, r.usize(7)),
                14 => Call::Format(zi, t),
                15 => Call::Resolve(r.usize(TZ_VALUES.len())),
                16 | 17 => Call::Resolve(r.usize(TZ_VALUES.len())),
                _ => Call::Decode(3 + r.usize(2)),
            }
        })
        .collect()
}

fn main() {
    let args: Vec<String> = std::env::args().collect();
    let wseed: u64 = args.get(1).and_then(|s| s.parse().ok()).unwrap_or(1);
    let nthreads: usize = args.get(2).and_then(|s| s.parse().ok()).unwrap_or(3);
    let ncalls: usize = args.get(3).and_then(|s| s.parse().ok()).unwrap_or(24);
    let mode: String = args.get(4).cloned().unwrap_or_else(|| "light".to_string());
    tz::verif_hooks::set_clock(fixed_clock);
    let mut r = Rng::new(wseed);
    let zones = Arc::new(Zones {
        shared: if mode == "now" || mode == "rule" {
            // the clock-driven workload needs no decoded files (keeps the interpreter's set-up short)
            (0..4).map(|k| Arc::new(TimeZone::fixed(k * 3600 - 7200).unwrap())).collect()
        } else {
            vec![Arc::new(TimeZone::from_tz_data(PARIS).unwrap()), Arc::new(TimeZone::from_tz_data(NEW_YORK).unwrap()), Arc::new(TimeZone::from_tz_data(RIGHT_UTC).unwrap()), Arc::new(TimeZone::from_tz_data(TOKYO).unwrap())]
        },
        far_east: TimeZone::fixed(14 * 3600).unwrap(),
        far_west: TimeZone::fixed(-12 * 3600).unwrap(),
        rules: {
            let mk = |std_off: i32, dst_off: i32, a: (u8, u8, u8), at: i32, b: (u8, u8, u8), bt: i32| {
                let std = LocalTimeType::new(std_off, false, Some(b"STD")).unwrap();
                let dst = LocalTimeType::new(dst_off, true, Some(b"DST")).unwrap();
                let rule = AlternateTime::new(std, dst, RuleDay::MonthWeekDay(MonthWeekDay::new(a.0, a.1, a.2).unwrap()), at, RuleDay::MonthWeekDay(MonthWeekDay::new(b.0, b.1, b.2).unwrap()), bt).unwrap();
                TimeZone::new(vec![], vec![std, dst], vec![], Some(TransitionRule::Alternate(rule))).unwrap()
            };
            vec![mk(3600, 7200, (3, 5, 0), 7200, (10, 5, 0), 10800), mk(-18000, -14400, (3, 2, 0), 7200, (11, 1, 0), 7200), mk(36000, 39600, (10, 1, 0), 7200, (4, 1, 0), 10800)]
        },
        rule_zone: {
            let std = LocalTimeType::new(3600, false, Some(b"RST")).unwrap();
            let dst = LocalTimeType::new(7200, true, Some(b"RDT")).unwrap();
            let rule = AlternateTime::new(std, dst, RuleDay::MonthWeekDay(MonthWeekDay::new(3, 5, 0).unwrap()), 7200, RuleDay::MonthWeekDay(MonthWeekDay::new(10, 5, 0).unwrap()), 10800).unwrap();
            TimeZone::new(vec![Transition::new(0, 1), Transition::new(86400, 0)], vec![std, dst], vec![], Some(TransitionRule::Alternate(rule))).unwrap()
        },
    });
    let plans: Vec<Vec<Call>> = (0..nthreads).map(|_| gen_calls(&mut r, ncalls, &mode)).collect();
    // prologue: single-threaded expectations
    let expected: Vec<Vec<u64>> = plans.iter().map(|p| p.iter().map(|c| eval(&zones, c)).collect()).collect();
    // concurrent phase
    let mut hs = Vec::new();
    for (ti, plan) in plans.iter().cloned().enumerate() {
        let z = zones.clone();
        let exp = expected[ti].clone();
        hs.push(std::thread::spawn(move || {
            let mut bad = Vec::new();
            for (i, c) in plan.iter().enumerate() {
                let d = eval(&z, c);
                if d != exp[i] {
                    bad.push(format!("thread {ti} call {i} {c:?}: concurrent digest {d:016x} != alone digest {:016x}", exp[i]));
                }
            }
            bad
        }));
    }
    let mut bad = Vec::new();
    for h in hs {
        bad.extend(h.join().expect("worker thread panicked"));
    }
    // epilogue: again alone, in reverse order
    for (ti, plan) in plans.iter().enumerate().rev() {
        for (i, c) in plan.iter().enumerate().rev() {
            let d = eval(&zones, c);
            if d != expected[ti][i] {
                bad.push(format!("thread {ti} call {i} {c:?}: epilogue digest {d:016x} != prologue digest {:016x}", expected[ti][i]));
            }
        }
    }
    if !bad.is_empty() {
        for b in &bad {
            println!("C15-MIRI-MISMATCH workload={wseed} {b}");
        }
        std::process::exit(1);
    }
    println!("ok workload={wseed} threads={nthreads} calls={ncalls}");
}
