//! C19: the same explicit scenario executed by three builds of this worker, whose
//! *dependency* tz-rs is compiled with features {}, {alloc}, {alloc,std} (the harness
//! itself always has std). Each build emits, per scenario, a digest of the results of the
//! operations of the allocation-free surface ("core") and, where the API exists, a digest
//! of the alloc surface. The orchestrator demands equal digests for every surface that
//! two builds share. Core-surface calls run with the allocator's forbidden flag set.
//!
//!   featsim run --seed S --start A --count N --out DIR --worker K
//!   featsim show <prop> <verif_seed> <index>     per-operation results of one scenario
//!   featsim exec <file>                          per-operation results of a scenario file

mod api;
#[path = "../../tzsim/src/alloc.rs"]
mod alloc;
#[path = "../../tzsim/src/canon.rs"]
mod canon;
#[path = "../../tzsim/src/consts.rs"]
mod consts;
#[path = "../../tzsim/src/construct.rs"]
mod construct;
#[path = "../../tzsim/src/crumb.rs"]
mod crumb;
#[path = "../../tzsim/src/gen.rs"]
mod gen;
#[path = "../../tzsim/src/prng.rs"]
mod prng;
#[path = "../../tzsim/src/refmodel.rs"]
mod refmodel;
#[path = "../../tzsim/src/scn.rs"]
mod scn;
#[path = "../../tzsim/src/spec.rs"]
mod spec;
#[path = "../../tzsim/src/tzif.rs"]
mod tzif;

use consts::kzone;
use scn::{Content, Op, Scenario, ZRef};
use spec::Parts;
use std::fmt::Write as _;
use std::panic::{catch_unwind, AssertUnwindSafe};
use tz::datetime::{DateTime, FoundDateTimeKind, UtcDateTime};
use tz::timezone::TimeZoneRef;

#[global_allocator]
static GLOBAL: alloc::Tracking = alloc::Tracking;

pub const BUILD: &str = if cfg!(feature = "tz-std") {
    "std"
} else if cfg!(feature = "tz-alloc") {
    "alloc"
} else {
    "core"
};

fn arg<'a>(args: &'a [String], name: &str) -> Option<&'a str> {
    args.iter().position(|a| a == name).and_then(|i| args.get(i + 1)).map(|s| s.as_str())
}

fn seed_for(prop: &str, verif_seed: u64, i: u64) -> u64 {
    let mut x = verif_seed ^ prng::fnv(prop.as_bytes());
    prng::splitmix(&mut x).wrapping_add(i)
}

struct StackBuf {
    b: [u8; 160],
    n: usize,
}

impl std::fmt::Write for StackBuf {
    fn write_str(&mut self, s: &str) -> std::fmt::Result {
        let bytes = s.as_bytes();
        if self.n + bytes.len() > self.b.len() {
            return Err(std::fmt::Error);
        }
        self.b[self.n..self.n + bytes.len()].copy_from_slice(bytes);
        self.n += bytes.len();
        Ok(())
    }
}

/// Run a core-surface call with allocation forbidden; returns (value, number of allocations, panicked).
fn core_call<T>(f: impl FnOnce() -> T) -> (Option<T>, u64) {
    let h0 = alloc::forbid_hits();
    alloc::window_start();
    alloc::set_forbid(true);
    let r = catch_unwind(AssertUnwindSafe(f));
    alloc::set_forbid(false);
    (r.ok(), alloc::forbid_hits() - h0)
}

fn r_ltt(out: &mut String, r: &Result<tz::LocalTimeType, tz::TzError>) {
    match r {
        Ok(l) => canon::ltt(out, l),
        Err(e) => canon::tzerr(out, e),
    }
}

fn r_dt(out: &mut String, r: &Result<DateTime, tz::TzError>) {
    match r {
        Ok(d) => canon::dt(out, d),
        Err(e) => canon::tzerr(out, e),
    }
}

pub struct OpOut {
    pub core: Option<String>,
    pub alloc: Option<String>,
    pub noalloc_violation: Option<String>,
}

struct State {
    slots: Vec<Option<Parts>>,
    #[cfg(feature = "tz-alloc")]
    owned: Vec<Option<tz::TimeZone>>,
    bufs: Vec<Vec<Option<FoundDateTimeKind>>>,
}

fn zref<'a>(st: &'a State, z: &ZRef) -> Option<TimeZoneRef<'a>> {
    match z {
        ZRef::P(k) | ZRef::S(k) => {
            let p = st.slots[k % 8].as_ref()?;
            TimeZoneRef::new(&p.trans, &p.types, &p.leaps, &p.rule).ok()
        }
        ZRef::U => Some(TimeZoneRef::utc()),
        ZRef::K(k) => Some(kzone(*k)),
    }
}

#[cfg(feature = "tz-alloc")]
mod vfs {
    //! in-memory filesystem behind the read function (only the builds with an allocator have the resolution path)
    use std::collections::BTreeMap;
    use std::sync::Mutex;
    pub static FILES: Mutex<BTreeMap<String, Vec<u8>>> = Mutex::new(BTreeMap::new());
    pub static ASKED: Mutex<Vec<String>> = Mutex::new(Vec::new());
    /// paths that exist but cannot be read, with the kind of failure
    pub static ERRS: Mutex<BTreeMap<String, crate::scn::ErrKind>> = Mutex::new(BTreeMap::new());

    #[derive(Debug)]
    struct NotIo;
    impl std::fmt::Display for NotIo {
        fn fmt(&self, f: &mut std::fmt::Formatter) -> std::fmt::Result {
            f.write_str("simulated failure (not an io::Error)")
        }
    }
    impl std::error::Error for NotIo {}

    fn errbox(kind: &crate::scn::ErrKind) -> Box<dyn std::error::Error + Send + Sync + 'static> {
        use crate::scn::ErrKind as E;
        use std::io::ErrorKind as K;
        let os = |k: i32| -> Box<dyn std::error::Error + Send + Sync + 'static> { Box::new(std::io::Error::from_raw_os_error(k)) };
        let simple = |k: K| -> Box<dyn std::error::Error + Send + Sync + 'static> { Box::new(std::io::Error::from(k)) };
        match kind {
            E::Enoent => os(2),
            E::Eacces => os(13),
            E::Eio => os(5),
            E::Eisdir => os(21),
            E::Eintr => os(4),
            E::Einval => os(22),
            E::Enotdir => os(20),
            E::Eloop => os(40),
            E::Enametoolong => os(36),
            E::Enomem => os(12),
            E::Eagain => os(11),
            E::KInvalidInput => simple(K::InvalidInput),
            E::KInvalidData => simple(K::InvalidData),
            E::KOther => simple(K::Other),
            E::KUnexpectedEof => simple(K::UnexpectedEof),
            E::Custom => Box::new(NotIo),
        }
    }

    pub fn read(path: &str) -> Result<Vec<u8>, Box<dyn std::error::Error + Send + Sync + 'static>> {
        ASKED.lock().unwrap().push(path.to_string());
        if let Some(k) = ERRS.lock().unwrap().get(path) {
            return Err(errbox(k));
        }
        match FILES.lock().unwrap().get(path) {
            Some(b) => Ok(b.clone()),
            None => Err(Box::new(std::io::Error::from_raw_os_error(2))),
        }
    }
}

fn exec_op(sc: &Scenario, st: &mut State, op: &Op) -> OpOut {
    let mut o = OpOut { core: None, alloc: None, noalloc_violation: None };
    let mut core = String::new();
    let mut hits = 0u64;
    macro_rules! call {
        ($e:expr) => {{
            let (r, h) = core_call(|| $e);
            hits += h;
            match r {
                Some(v) => v,
                None => {
                    o.core = Some("PANIC".into());
                    return o;
                }
            }
        }};
    }
    match op {
        Op::Decode { cid, slot, .. } => {
            let spec = match sc.contents.get(*cid) {
                Some(Content::Gen(z)) => z,
                _ => return o,
            };
            // core surface: the zone over harness-owned slices
            let parts = spec.parts();
            match parts {
                Ok(p) => {
                    let ok = {
                        let r = call!(TimeZoneRef::new(&p.trans, &p.types, &p.leaps, &p.rule));
                        match r {
                            Ok(z) => {
                                core.push_str("Ok(");
                                canon::zone(&mut core, z);
                                core.push(')');
                                true
                            }
                            Err(e) => {
                                canon::tzerr(&mut core, &e);
                                false
                            }
                        }
                    };
                    st.slots[slot % 8] = if ok { Some(p) } else { None };
                }
                Err(()) => {
                    core.push_str("Err(parts)");
                    st.slots[slot % 8] = None;
                }
            }
            // alloc surface: decoding the writer's bytes and the owned constructor
            #[cfg(feature = "tz-alloc")]
            {
                let mut a = String::new();
                match spec.bytes() {
                    Some(b) => match tz::TimeZone::from_tz_data(&b) {
                        Ok(z) => {
                            a.push_str("decoded ");
                            canon::zone(&mut a, z.as_ref());
                            st.owned[slot % 8] = Some(z);
                        }
                        Err(e) => {
                            canon::tzerr(&mut a, &e);
                            st.owned[slot % 8] = None;
                        }
                    },
                    None => a.push_str("unwritable"),
                }
                match spec.expected() {
                    Ok(z) => {
                        a.push_str(" new ");
                        canon::zone(&mut a, z.as_ref());
                    }
                    Err(()) => a.push_str(" new Err"),
                }
                o.alloc = Some(a);
            }
        }
        #[cfg(feature = "tz-alloc")]
        Op::Resolve { tz, dirs, .. } => {
            let dirv: Vec<&str> = dirs.iter().filter_map(|i| sc.dirs.get(*i).map(|s| s.as_str())).collect();
            vfs::ASKED.lock().unwrap().clear();
            let r = catch_unwind(AssertUnwindSafe(|| tz::timezone::TimeZoneSettings::new(&dirv, vfs::read).parse_posix_tz(&tz.value())));
            let mut a = String::new();
            for p in vfs::ASKED.lock().unwrap().iter() {
                let _ = write!(a, "open {p:?};");
            }
            match r {
                Ok(Ok(z)) => canon::zone(&mut a, z.as_ref()),
                Ok(Err(e)) => canon::err(&mut a, &e),
                Err(_) => a.push_str("PANIC"),
            }
            o.alloc = Some(a);
            return o;
        }
        #[cfg(feature = "tz-alloc")]
        Op::ResolveLocal { dirs, .. } => {
            let dirv: Vec<&str> = dirs.iter().filter_map(|i| sc.dirs.get(*i).map(|s| s.as_str())).collect();
            vfs::ASKED.lock().unwrap().clear();
            let r = catch_unwind(AssertUnwindSafe(|| tz::timezone::TimeZoneSettings::new(&dirv, vfs::read).parse_local()));
            let mut a = String::new();
            for p in vfs::ASKED.lock().unwrap().iter() {
                let _ = write!(a, "open {p:?};");
            }
            match r {
                Ok(Ok(z)) => canon::zone(&mut a, z.as_ref()),
                Ok(Err(e)) => canon::err(&mut a, &e),
                Err(_) => a.push_str("PANIC"),
            }
            o.alloc = Some(a);
            return o;
        }
        Op::Lookup { z, t } => match zref(st, z) {
            Some(zr) => {
                let r = call!(zr.find_local_time_type(*t).map(|l| *l));
                r_ltt(&mut core, &r);
                #[cfg(feature = "tz-alloc")]
                if let ZRef::P(k) = z {
                    if let Some(ow) = &st.owned[k % 8] {
                        let mut a = String::new();
                        r_ltt(&mut a, &ow.find_local_time_type(*t).map(|l| *l));
                        o.alloc = Some(a);
                    }
                }
            }
            None => core.push_str("skip"),
        },
        Op::FromTs { z, t, ns } => match zref(st, z) {
            Some(zr) => {
                let r = call!(DateTime::from_timespec(*t, *ns, zr));
                r_dt(&mut core, &r);
            }
            None => core.push_str("skip"),
        },
        Op::FromTotal { z, n } => match zref(st, z) {
            Some(zr) => {
                let r = call!(DateTime::from_total_nanoseconds(*n, zr));
                r_dt(&mut core, &r);
            }
            None => core.push_str("skip"),
        },
        Op::Project { z, t, ns, to } => match (zref(st, z), zref(st, to)) {
            (Some(zr), Some(tor)) => {
                let r = call!({
                    let a = DateTime::from_timespec(*t, *ns, zr);
                    let b = a.as_ref().ok().map(|d| d.project(tor));
                    (a, b)
                });
                r_dt(&mut core, &r.0);
                if let Some(b) = &r.1 {
                    core.push_str(" -> ");
                    r_dt(&mut core, b);
                }
            }
            _ => core.push_str("skip"),
        },
        Op::UtcProject { t, ns, to } => match zref(st, to) {
            Some(tor) => {
                let r = call!({
                    let a = UtcDateTime::from_timespec(*t, *ns);
                    let b = a.as_ref().ok().map(|d| d.project(tor));
                    (a, b)
                });
                match &r.0 {
                    Ok(u) => canon::utc(&mut core, u),
                    Err(e) => canon::tzerr(&mut core, e),
                }
                if let Some(b) = &r.1 {
                    core.push_str(" -> ");
                    r_dt(&mut core, b);
                }
            }
            None => core.push_str("skip"),
        },
        Op::FindN { z, f, n, buf } => {
            let mut b = std::mem::take(&mut st.bufs[buf % 3]);
            b.resize(*n, None);
            match zref(st, z) {
                Some(zr) => {
                    let r = call!(match DateTime::find_n(&mut b[..], f.y, f.mo, f.d, f.h, f.mi, f.s, f.ns, zr) {
                        Ok(l) => Ok((l.count(), l.is_exhaustive(), l.data().len(), l.unique(), l.earliest(), l.latest())),
                        Err(e) => Err(e),
                    });
                    match &r {
                        Ok((c, e, d, u, ea, la)) => {
                            let _ = write!(core, "count={c} exh={e} dlen={d} ");
                            canon::opt_dt(&mut core, u);
                            canon::opt_dt(&mut core, ea);
                            canon::opt_dt(&mut core, la);
                        }
                        Err(e) => canon::tzerr(&mut core, e),
                    }
                    for x in &b {
                        match x {
                            None => core.push_str("None;"),
                            Some(k) => {
                                canon::found(&mut core, k);
                                core.push(';')
                            }
                        }
                    }
                }
                None => core.push_str("skip"),
            }
            st.bufs[buf % 3] = b;
        }
        Op::Find { z, f } => {
            // alloc surface only; the core surface sees the same search through find_n with a big buffer
            match zref(st, z) {
                Some(zr) => {
                    let mut big = [None; 16];
                    let r = call!(DateTime::find_n(&mut big, f.y, f.mo, f.d, f.h, f.mi, f.s, f.ns, zr).map(|l| l.count()));
                    match &r {
                        Ok(c) => {
                            let _ = write!(core, "count={c} ");
                            canon::found_list(&mut core, big.iter().flatten());
                        }
                        Err(e) => canon::tzerr(&mut core, e),
                    }
                    #[cfg(feature = "tz-alloc")]
                    {
                        let mut a = String::new();
                        match DateTime::find(f.y, f.mo, f.d, f.h, f.mi, f.s, f.ns, zr) {
                            Ok(l) => {
                                canon::opt_dt(&mut a, &l.unique());
                                canon::opt_dt(&mut a, &l.earliest());
                                canon::opt_dt(&mut a, &l.latest());
                                canon::found_list(&mut a, l.into_inner().iter());
                            }
                            Err(e) => canon::tzerr(&mut a, &e),
                        }
                        o.alloc = Some(a);
                    }
                }
                None => core.push_str("skip"),
            }
        }
        Op::Format { z, t, ns } => match zref(st, z) {
            Some(zr) => {
                let mut sb = StackBuf { b: [0; 160], n: 0 };
                let mut sb2 = StackBuf { b: [0; 160], n: 0 };
                let r = call!({
                    let d = DateTime::from_timespec(*t, *ns, zr);
                    if let Ok(d) = &d {
                        let _ = write!(sb, "{d}");
                    }
                    let u = UtcDateTime::from_timespec(*t, *ns);
                    if let Ok(u) = &u {
                        let _ = write!(sb2, "{u}");
                    }
                    (d.is_ok(), u.is_ok())
                });
                let _ = write!(core, "fmt({},{:?},{},{:?})", r.0, std::str::from_utf8(&sb.b[..sb.n]).unwrap_or("?"), r.1, std::str::from_utf8(&sb2.b[..sb2.n]).unwrap_or("?"));
                // the same values through format specifications with width, fill, alignment and precision
                let mut sb3 = StackBuf { b: [0; 160], n: 0 };
                let mut sb4 = StackBuf { b: [0; 160], n: 0 };
                let _ = call!({
                    if let Ok(d) = DateTime::from_timespec(*t, *ns, zr) {
                        let _ = write!(sb3, "[{d:>44}][{d:<5}][{d:*^50}][{d:.3}]");
                    }
                    if let Ok(u) = UtcDateTime::from_timespec(*t, *ns) {
                        let _ = write!(sb4, "[{u:>44}][{u:.7}][{u:#<40}]");
                    }
                });
                let _ = write!(core, " spec({:?},{:?})", std::str::from_utf8(&sb3.b[..sb3.n]).unwrap_or("?"), std::str::from_utf8(&sb4.b[..sb4.n]).unwrap_or("?"));
            }
            None => core.push_str("skip"),
        },
        Op::Construct { kind, args } => {
            // construct::run renders into a String itself, so it cannot run under the forbidden flag;
            // the allocation-free property of constructors is covered by the calls above
            match catch_unwind(AssertUnwindSafe(|| construct::run(kind, args))) {
                Ok(s) => core.push_str(&s),
                Err(_) => core.push_str("PANIC"),
            }
        }
        _ => return o,
    }
    if hits > 0 {
        o.noalloc_violation = Some(format!("{} allocated {hits} time(s) in the {BUILD} build", op.text()));
    }
    o.core = Some(core);
    o
}

pub fn exec_scenario(sc: &Scenario, mut per_op: impl FnMut(usize, &Op, &OpOut)) -> (u64, u64, Vec<String>) {
    let mut st = State {
        slots: (0..8).map(|_| None).collect(),
        #[cfg(feature = "tz-alloc")]
        owned: (0..8).map(|_| None).collect(),
        bufs: (0..3).map(|_| Vec::new()).collect(),
    };
    #[cfg(feature = "tz-alloc")]
    {
        let mut f = vfs::FILES.lock().unwrap();
        f.clear();
        let mut e = vfs::ERRS.lock().unwrap();
        e.clear();
        for fi in &sc.files {
            if let Some(k) = &fi.perm {
                e.insert(fi.path.clone(), k.clone());
            }
            if let Some(Content::Gen(z)) = sc.contents.get(fi.cid) {
                if let Some(b) = z.bytes() {
                    f.insert(fi.path.clone(), b);
                }
            }
        }
    }
    // the process environment is part of the configuration-independent input: the same in all three
    // builds, different from scenario to scenario (a build that consults it gives itself away)
    for k in ["TZ", "TZDIR"] {
        std::env::remove_var(k);
    }
    match sc.seed % 3 {
        1 => std::env::set_var("TZ", "JST-9"),
        2 => {
            std::env::set_var("TZ", ":Zone/A");
            std::env::set_var("TZDIR", "/zi");
        }
        _ => {}
    }
    let mut hc: u64 = 0xcbf2_9ce4_8422_2325;
    let mut ha: u64 = 0xcbf2_9ce4_8422_2325;
    let mut viol = Vec::new();
    if let Some(a) = sc.actors.first() {
        for (i, op) in a.ops.iter().enumerate() {
            let o = exec_op(sc, &mut st, op);
            if let Some(c) = &o.core {
                hc = prng::fnv_add(hc, c.as_bytes());
                hc = prng::fnv_add(hc, &[0xFF]);
            }
            if let Some(c) = &o.alloc {
                ha = prng::fnv_add(ha, c.as_bytes());
                ha = prng::fnv_add(ha, &[0xFF]);
            }
            if let Some(v) = &o.noalloc_violation {
                viol.push(format!("op #{i}: {v}"));
            }
            per_op(i, op, &o);
        }
    }
    (hc, ha, viol)
}

fn main() {
    std::panic::set_hook(Box::new(|_| {}));
    // the documented API surface of this configuration (a compile gate; calling it is cheap)
    api::traits();
    let _ = api::conversions();
    let _ = api::conversions_tz();
    #[cfg(feature = "tz-alloc")]
    let _ = api::with_alloc();
    let args: Vec<String> = std::env::args().skip(1).collect();
    match args.first().map(|s| s.as_str()) {
        Some("run") => {
            let verif_seed: u64 = arg(&args, "--seed").and_then(|s| s.parse().ok()).unwrap_or(1);
            let start: u64 = arg(&args, "--start").and_then(|s| s.parse().ok()).unwrap_or(0);
            let count: u64 = arg(&args, "--count").and_then(|s| s.parse().ok()).unwrap_or(1000);
            let out_dir = arg(&args, "--out").unwrap_or("/tmp/featsim-out").to_string();
            let worker = arg(&args, "--worker").unwrap_or("0").to_string();
            let _ = std::fs::create_dir_all(&out_dir);
            crumb::init(&format!("{out_dir}/crumb-{BUILD}-{worker}"));
            let mut bin: Vec<u8> = Vec::with_capacity(count as usize * 16);
            let mut viol: Vec<(u64, String)> = Vec::new();
            let mut ops: u64 = 0;
            let mut digests: Vec<u64> = Vec::new();
            for i in start..start + count {
                crumb::set(i);
                let sc = gen::generate("C19", seed_for("C19", verif_seed, i));
                let (hc, ha, v) = exec_scenario(&sc, |_, _, o| {
                    if o.core.is_some() {
                        ops += 1
                    }
                });
                bin.extend_from_slice(&hc.to_le_bytes());
                bin.extend_from_slice(&ha.to_le_bytes());
                digests.push(sc.digest());
                for x in v.into_iter().take(2) {
                    if viol.len() < 20 {
                        viol.push((i, x));
                    }
                }
            }
            crumb::done();
            let _ = std::fs::write(format!("{out_dir}/digests-{BUILD}-{worker}.bin"), bin);
            if BUILD == "core" {
                let mut b = Vec::new();
                for d in &digests {
                    b.extend_from_slice(&d.to_le_bytes());
                }
                let _ = std::fs::write(format!("{out_dir}/nontrivial-{worker}.bin"), b);
            }
            let mut j = format!("{{\"build\":\"{BUILD}\",\"start\":{start},\"count\":{count},\"ops\":{ops},\"noalloc\":[");
            j.push_str(&viol.iter().map(|(i, s)| format!("{{\"index\":{i},\"detail\":\"{}\"}}", s.replace('\\', "\\\\").replace('"', "\\\""))).collect::<Vec<_>>().join(","));
            j.push_str("]}");
            let _ = std::fs::write(format!("{out_dir}/fstats-{BUILD}-{worker}.json"), j);
        }
        Some("show") | Some("exec") => {
            let sc = if args[0] == "show" {
                let vs: u64 = args[2].parse().unwrap_or(1);
                let i: u64 = args[3].parse().unwrap_or(0);
                gen::generate("C19", seed_for("C19", vs, i))
            } else {
                let text = std::fs::read_to_string(&args[1]).expect("scenario file");
                Scenario::parse(&text).expect("scenario parses")
            };
            println!("build {BUILD}");
            // `--prelude <verif_seed> <first> <index>`: what this worker had executed before, in the same process
            // (a difference that needs state left behind by earlier scenarios shows only after them)
            if let Some(k) = args.iter().position(|a| a == "--prelude") {
                let n = |j: usize| args.get(k + j).and_then(|x| x.parse::<u64>().ok()).unwrap_or(0);
                let (vs, first, idx) = (n(1), n(2), n(3));
                for j in first..idx {
                    let psc = gen::generate("C19", seed_for("C19", vs, j));
                    let _ = exec_scenario(&psc, |_, _, _| {});
                }
                println!("prelude {first}..{idx}");
            }
            let (hc, ha, v) = exec_scenario(&sc, |i, op, o| {
                if let Some(c) = &o.core {
                    println!("op {i} core {:016x} {} => {}", prng::fnv(c.as_bytes()), op.text(), canon::short(c));
                }
                if let Some(c) = &o.alloc {
                    println!("op {i} alloc {:016x} {} => {}", prng::fnv(c.as_bytes()), op.text(), canon::short(c));
                }
            });
            println!("core_digest {hc:016x}");
            println!("alloc_digest {ha:016x}");
            for x in v {
                println!("NOALLOC {x}");
            }
        }
        Some("gen") => {
            let vs: u64 = args[1].parse().unwrap_or(1);
            let i: u64 = args[2].parse().unwrap_or(0);
            print!("{}", gen::generate("C19", seed_for("C19", vs, i)).text());
        }
        _ => {
            eprintln!("usage: featsim run|show|exec|gen");
            std::process::exit(2);
        }
    }
}
