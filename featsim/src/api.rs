//! C19: the API surface a consumer may rely on in EVERY feature configuration, written as code
//! that has to compile in all three builds of this worker. If tz-rs builds alone in a
//! configuration but this file does not compile there (while it does with `std`), some operation
//! that is available in more than one configuration is no longer available in all of them.

#![allow(dead_code, unused_variables)]

use tz::datetime::{DateTime, FoundDateTimeKind, FoundDateTimeListRefMut, UtcDateTime};
use tz::error::datetime::DateTimeError;
use tz::error::timezone::{LocalTimeTypeError, TimeZoneError, TransitionRuleError};
use tz::timezone::{AlternateTime, Julian0WithLeap, Julian1WithoutLeap, LeapSecond, LocalTimeType, MonthWeekDay, RuleDay, TimeZoneRef, Transition, TransitionRule};
use tz::{Error, TzError};

fn is_error<T: core::error::Error + core::fmt::Debug + core::fmt::Display>() {}
fn is_copy<T: Copy + Clone + core::fmt::Debug>() {}
fn is_eq<T: PartialEq>() {}

pub fn traits() {
    is_error::<Error>();
    is_error::<TzError>();
    is_error::<DateTimeError>();
    is_error::<LocalTimeTypeError>();
    is_error::<TimeZoneError>();
    is_error::<TransitionRuleError>();
    is_copy::<LocalTimeType>();
    is_copy::<Transition>();
    is_copy::<LeapSecond>();
    is_copy::<TransitionRule>();
    is_copy::<AlternateTime>();
    is_copy::<RuleDay>();
    is_copy::<MonthWeekDay>();
    is_copy::<Julian0WithLeap>();
    is_copy::<Julian1WithoutLeap>();
    is_copy::<DateTime>();
    is_copy::<UtcDateTime>();
    is_copy::<FoundDateTimeKind>();
    is_copy::<TimeZoneRef<'static>>();
    is_eq::<DateTime>();
    is_eq::<UtcDateTime>();
    is_eq::<TimeZoneRef<'static>>();
    is_eq::<FoundDateTimeListRefMut<'static>>();
}

/// every leaf error converts into both unified error types with `?`
pub fn conversions() -> Result<(), Error> {
    let m = MonthWeekDay::new(3, 5, 0)?;
    let j1 = Julian1WithoutLeap::new(1)?;
    let j0 = Julian0WithLeap::new(0)?;
    let std = LocalTimeType::new(3600, false, Some(b"CET"))?;
    let dst = LocalTimeType::new(7200, true, Some(b"CEST"))?;
    let alt = AlternateTime::new(std, dst, RuleDay::MonthWeekDay(m), 7200, RuleDay::MonthWeekDay(MonthWeekDay::new(10, 5, 0)?), 10800)?;
    let rule = Some(TransitionRule::Alternate(alt));
    let types = [std, dst];
    let z = TimeZoneRef::new(&[], &types, &[], &rule)?;
    let d = DateTime::new(2024, 1, 1, 0, 0, 0, 0, std)?;
    let u = UtcDateTime::new(2024, 1, 1, 0, 0, 0, 0)?;
    let _ = u.project(z)?;
    let _ = d.project(TimeZoneRef::utc())?;
    let _ = z.find_local_time_type(0)?;
    let _ = DateTime::from_timespec(0, 0, z)?;
    let _ = DateTime::from_total_nanoseconds(0, z)?;
    let _ = DateTime::from_timespec_and_local(0, 0, LocalTimeType::utc())?;
    let _ = DateTime::from_total_nanoseconds_and_local(0, LocalTimeType::with_ut_offset(0)?)?;
    let _ = UtcDateTime::from_timespec(0, 0)?;
    let _ = UtcDateTime::from_total_nanoseconds(0)?;
    let mut buf = [None; 2];
    let l = DateTime::find_n(&mut buf, 2024, 3, 31, 2, 30, 0, 0, z)?;
    let _ = (l.count(), l.is_exhaustive(), l.unique(), l.earliest(), l.latest(), l.data().len());
    let _ = (j1.get(), j0.get(), m.month(), m.week(), m.week_day(), alt.std(), alt.dst(), alt.dst_start(), alt.dst_end(), alt.dst_start_time(), alt.dst_end_time());
    let _ = (d.year(), d.month(), d.month_day(), d.hour(), d.minute(), d.second(), d.nanoseconds(), d.week_day(), d.year_day(), d.total_nanoseconds(), d.unix_time(), d.local_time_type());
    let _ = (u.year(), u.week_day(), u.year_day(), u.total_nanoseconds(), u.unix_time());
    Ok(())
}

/// the same conversions into TzError
pub fn conversions_tz() -> Result<(), TzError> {
    let _ = MonthWeekDay::new(3, 5, 0)?;
    let _ = LocalTimeType::new(3600, false, Some(b"CET"))?;
    let _ = DateTime::new(2024, 1, 1, 0, 0, 0, 0, LocalTimeType::utc())?;
    let e: TzError = DateTimeError::InvalidMonth.into();
    let _: Error = e.into();
    let _: TzError = TimeZoneError::NoLocalTimeType.into();
    let _: TzError = TransitionRuleError::InconsistentRule.into();
    let _: TzError = LocalTimeTypeError::InvalidUtcOffset.into();
    let _: Error = TransitionRuleError::InconsistentRule.into();
    let _: Error = LocalTimeTypeError::InvalidUtcOffset.into();
    let _: Error = TimeZoneError::NoLocalTimeType.into();
    let _: Error = DateTimeError::InvalidMonth.into();
    Ok(())
}

/// API that exists with an allocator (alloc and std builds)
#[cfg(feature = "tz-alloc")]
pub fn with_alloc() -> Result<(), Error> {
    use tz::datetime::FoundDateTimeList;
    use tz::error::parse::{ParseDataError, TzFileError, TzStringError};
    use tz::timezone::TimeZoneSettings;
    use tz::TimeZone;
    is_error::<TzFileError>();
    is_error::<TzStringError>();
    is_error::<ParseDataError>();
    let z = TimeZone::utc();
    let _ = TimeZone::fixed(3600)?;
    let _ = TimeZone::new(std::vec![], std::vec![LocalTimeType::utc()], std::vec![], None)?;
    let _ = z.as_ref();
    let _ = z.find_local_time_type(0)?;
    let l: FoundDateTimeList = DateTime::find(2024, 1, 1, 0, 0, 0, 0, z.as_ref())?;
    let _ = (l.unique(), l.earliest(), l.latest(), l.into_inner());
    fn reader(_: &str) -> Result<std::vec::Vec<u8>, std::boxed::Box<dyn core::error::Error + Send + Sync + 'static>> {
        Err("x".into())
    }
    let s = TimeZoneSettings::new(&["/zi"], reader);
    let _ = s.parse_posix_tz("UTC0")?;
    let _ = s.parse_local();
    let _ = TimeZone::from_tz_data(b"");
    let _: TzError = TzFileError::InvalidMagicNumber.into();
    let _: Error = TzStringError::Empty.into();
    Ok(())
}

/// API that exists with std only
#[cfg(feature = "tz-std")]
pub fn with_std() {
    use tz::timezone::TimeZoneSettings;
    use tz::TimeZone;
    let _ = TimeZone::local();
    let _ = TimeZone::from_posix_tz("UTC0");
    let _ = TimeZone::utc().find_current_local_time_type();
    let _ = UtcDateTime::now();
    let _ = DateTime::now(TimeZoneRef::utc());
    let _ = TimeZoneSettings::DEFAULT.parse_local();
    let _ = (TimeZoneSettings::DEFAULT_DIRECTORIES, TimeZoneSettings::DEFAULT_READ_FILE_FN);
}
