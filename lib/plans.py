"""Per-property check plans."""
import glob
import json
import os
import struct
import subprocess
import time

import orchestrate as o
from orchestrate import REPO_DIR


# ------------------------------------------------------------------ C20 / C17

def plan_c20(ctx):
    agg, rule, assumptions = o.check_c20(ctx)
    return agg, rule, assumptions, {}


def plan_c17(ctx):
    agg, rule, assumptions = o.check_c17(ctx)
    return agg, rule, assumptions, {}


# ------------------------------------------------------------------ C08

def plan_c08(ctx):
    thorough = ctx.tier == "thorough"
    gen_files = 6000 if thorough else 1500
    jobs = []
    jobs += o.plan_sweep_jobs(ctx, "full", 1000, gen_files)
    jobs += o.plan_sweep_jobs(ctx, "trunc", 1000, gen_files)
    jobs += o.plan_sweep_jobs(ctx, "typed", 1000, gen_files)
    jobs += o.plan_sweep_jobs(ctx, "bytes", 1000, gen_files // 4)
    jobs += o.plan_sweep_jobs(ctx, "reencode", 1000, 0)
    jobs += o.plan_sweep_jobs(ctx, "huge", 1000, 0)
    jobs += o.plan_run_jobs(ctx, "C08", o.BUDGET["C08"][ctx.tier])
    res = o.run_workers(ctx, jobs)
    o.handle_deaths(ctx, res)
    agg = o.collect(ctx)
    o.required_probes(ctx, agg, ["footer-cut-after-first-NL", "footer-cut-inside", "body2", "header2", "v1-body", "agrees_with_reference", "footer_rule_checked", "equals_spec", "version_1", "version_3", "with_leap_seconds", "scribble_v1_block", "decode_generated_ok", "decode_untyped_corruption_accepted", "v1_trailing", "pair_0_1", "dst_flag", "single_byte_corruption_accepted", "footer_big_number", "h1_typecnt_zero", "reencoded_v1", "reencoded_v3"])
    sweeps = {}
    for path in sorted(glob.glob(os.path.join(ctx.out, "stats-*-*.json"))):
        try:
            d = json.load(open(path))
        except Exception:
            continue
        k = d.get("kind")
        if k:
            s = sweeps.setdefault(k, {"evaluations": 0, "files": 0})
            s["evaluations"] += d.get("evaluations", 0)
            s["files"] += d.get("files", 0)
    rule = ("fault enumeration: (1) EVERY strict prefix of every one of the 894 distinct vendored IANA TZif files (tzdata 2025b, posix + right trees) and of every writer-generated file must be refused; "
            "(2) every file decoded whole must agree with the harness's reference decoder (transitions, types, designations, leap records, footer rule) and, for generated files, equal the spec; "
            "(3) the typed single-field corruption catalogue (29 kinds x up to 24 parameter values per file) must be refused and scribbling the 32-bit block of a v2+ file must not change the result; "
            "(2b) every vendored zone re-encoded by the harness's independent writer as version 1 (where its times fit) / 2 / 3, with two string-table layouts and three kinds of 32-bit block, must decode to the original zone again; "
            "(3b) EVERY single-byte corruption (4 replacement values per byte position) of every file: whatever the library still accepts must equal the reference decoder's reading of the corrupted bytes; "
            "(4) sampled part (exploration level): generated zone specs in v1/v2/v3 with decoy 32-bit blocks, shared designation strings, indicator vectors, extreme times, then untyped corruptions (flip, torn, zero-tail) "
            "checked against the reference decoder whenever the library accepts. Non-trivial = every evaluated input (each is a distinct byte string handed to the decoder); distinct = distinct FNV digests of those byte strings / scenario texts")
    extra = {"sweeps": sweeps, "exhaustive": False, "exhaustive_part": "truncation points and typed catalogue over the vendored corpus are enumerated completely; the space of all TZif files is sampled",
             "corpus": {"tzdata": "2025b", "paths": 1243, "distinct_contents": 894, "note": "887 version-2 and 7 version-3 files, no v1: v1 coverage comes from the writer only"}}
    return agg, rule, ["the harness's structural TZif model (tzsim/src/tzif.rs) and footer reader (posix.rs) are faithful to RFC 8536", "fidelity over 'all header combinations' is sampled by the zone-spec generator, not enumerated"], extra


# ------------------------------------------------------------------ C07

def plan_c07(ctx):
    thorough = ctx.tier == "thorough"
    jobs = []
    jobs += o.plan_sweep_jobs(ctx, "trunc", 1000, 1500, prop="C07")
    jobs += o.plan_sweep_jobs(ctx, "typed", 1000, 1500, prop="C07")
    jobs += o.plan_sweep_jobs(ctx, "bytes", 1000, 400, prop="C07")
    jobs += o.plan_sweep_jobs(ctx, "huge", 1000, 0, prop="C07")
    jobs += o.plan_run_jobs(ctx, "C07", o.BUDGET["C07"][ctx.tier])
    res = o.run_workers(ctx, jobs)
    o.handle_deaths(ctx, res)
    builds = ["release+overflow-checks+debug-assertions"]
    if True:
        # the same kind of execution set again under a plain release build and a plain debug build
        # (quick: an eighth of the budget each; thorough: half / the quick budget)
        for profile, binpath in (("plain", os.path.join(ctx.verif, "target", "plain", "tzsim")), ("dev", os.path.join(ctx.verif, "target", "debug", "tzsim"))):
            rc, out = o.sh(["cargo", "build", "--offline", "--profile", profile], cwd=os.path.join(ctx.verif, "tzsim"))
            if rc != 0:
                ctx.harness_errors.append(f"cannot build the simulator with profile {profile}: {out[-500:]}")
                continue
            saved = ctx.tzsim
            ctx.tzsim = binpath
            if thorough:
                n = o.BUDGET["C07"]["quick"] if profile == "dev" else o.BUDGET["C07"][ctx.tier] // 2
            else:
                n = o.BUDGET["C07"]["quick"] // (24 if profile == "dev" else 8)
            jobs = o.plan_run_jobs(ctx, "C07", n, tag=profile + "-")
            jobs += o.plan_sweep_jobs(ctx, "trunc", (250 if profile == "dev" else 1000) if thorough else (40 if profile == "dev" else 150), 300 if thorough else 60, prop="C07", tag=profile + "-")
            res = o.run_workers(ctx, jobs)
            o.handle_deaths(ctx, res)
            ctx.tzsim = saved
            builds.append(profile)
    agg = o.collect(ctx)
    o.required_probes(ctx, agg, ["boundary_probe_found_datetimes", "decode_untyped_corruption_accepted", "clock_before_epoch", "count_huge", "flip", "torn", "short"])
    rule = ("one evaluation = one single-client scenario: decode/resolve of a (usually faulted) file delivered by the read seam - every truncation point, typed corruption, bit flips, torn mixes, zeroed tails, "
            "hostile header counts - and, if a zone comes back, 4-16 follow-up probes at instants taken from that zone's own transition/leap table and the i64/i32 extremes (lookup, from_timespec, find, find_n, project, format), "
            "clock jumps to extreme readings followed by now(), and constructors called with boundary numbers; plus the complete truncation and typed-corruption sweeps over the corpus. "
            "Invariants: no unwind out of any call, worker neither dies nor hangs, peak heap during decode <= 4x input + 4 KiB, find <= 4k results + 1 KiB. "
            "Non-trivial = at least two operations ran; distinct = distinct scenario digests / distinct byte strings")
    return agg, rule, ["64-bit target only (usize overflow of count*TIME_SIZE on 32-bit is out of reach here)", "arguments reachable only by direct API misuse are sampled, not enumerated"], {"builds": builds}


# ------------------------------------------------------------------ C15

def miri_mode(w):
    """workload seed -> workload kind: now = clock-driven calls on zones whose local dates differ"""
    if w % 3 == 0:
        return "rule"
    return "now" if w % 2 == 0 else ("heavy" if w % 4 == 1 else "light")


def miri_runs(ctx, n_seeds, workloads, rates, threads=3, calls=24):
    """Tier B: separate Miri processes, one per (workload seed, miri seed, preemption rate)."""
    cwd = os.path.join(ctx.verif, "tzsim-miri")
    # build once (also builds the Miri sysroot if needed)
    rc, out = o.sh(["cargo", "+nightly", "miri", "run", "--offline", "--target-dir", os.path.join(ctx.verif, "target", "miri"), "--", "0", "1", "1"], cwd=cwd, timeout=1800, extra_env={"MIRIFLAGS": "-Zmiri-seed=0"})
    if rc != 0:
        # is it tz-rs or the harness?
        if "error" in out and "tz-rs" in out:
            ctx.harness_errors.append("Miri tier: tz-rs does not build/run under Miri: " + out[-800:])
        else:
            ctx.harness_errors.append("Miri tier cannot start: " + out[-800:])
        return {"executions": 0}
    todo = [(w, s, r) for w in workloads for r in rates for s in range(n_seeds)]
    running = []
    done = 0
    fails = []
    t0 = time.time()
    while todo or running:
        while todo and len(running) < o.NPROC:
            w, s, r = todo.pop(0)
            e = o.env()
            e["MIRIFLAGS"] = f"-Zmiri-seed={s} -Zmiri-preemption-rate={r}"
            p = subprocess.Popen(["cargo", "+nightly", "miri", "run", "--offline", "--target-dir", os.path.join(ctx.verif, "target", "miri"), "--", str(w), str(threads), str(calls if miri_mode(w) in ("light", "heavy") else calls + 16), miri_mode(w)], cwd=cwd, env=e, stdout=subprocess.PIPE, stderr=subprocess.STDOUT, text=True)
            running.append((p, w, s, r))
        time.sleep(0.05)
        for item in list(running):
            p, w, s, r = item
            if p.poll() is None:
                continue
            running.remove(item)
            out = p.stdout.read()
            done += 1
            if p.returncode != 0 or "ok workload=" not in out:
                fails.append((w, s, r, out))
    for (w, s, r, out) in fails[:3]:
        os.makedirs(ctx.replays, exist_ok=True)
        path = os.path.join(ctx.replays, f"C15-miri-w{w}-s{s}-r{r}.miri.txt")
        with open(path, "w") as f:
            f.write(f"# property C15\n# oracle C15.miri\n# replay: cd /verif/tzsim-miri && MIRIFLAGS='-Zmiri-seed={s} -Zmiri-preemption-rate={r}' cargo +nightly miri run --offline --target-dir /verif/target/miri -- {w} {threads} {calls if miri_mode(w) in ('light', 'heavy') else calls + 16} {miri_mode(w)}\n")
            f.write(f"workload {w}\nmiri_seed {s}\nrate {r}\nthreads {threads}\ncalls {calls if miri_mode(w) in ('light', 'heavy') else calls + 16}\nmode {miri_mode(w)}\n")
            f.write("# ---- output of the failing execution\n")
            for line in out.splitlines()[-60:]:
                f.write("# " + line + "\n")
        kind = "data-race-or-ub" if ("Undefined Behavior" in out or "data race" in out.lower()) else ("digest-mismatch" if "C15-MIRI-MISMATCH" in out else "failed")
        ctx.found.append({"oracle": "C15.miri", "sig": kind, "detail": f"Miri execution (workload {w}, seed {s}, preemption rate {r}) failed: " + " | ".join(out.splitlines()[-6:])[:600], "replay": path, "miri": True})
    return {"executions": done, "failed": len(fails), "wall_s": round(time.time() - t0, 1), "workload_seeds": list(workloads), "miri_seeds": f"0..{n_seeds}", "preemption_rates": list(rates), "threads": threads, "calls_per_thread": calls, "workload_kinds": {str(w): miri_mode(w) for w in workloads}}


def gate_builds(verif):
    """name -> (crate directory, argv): the std gate, the same gate under tz-rs's alloc-only and core-only
    feature sets (an auto trait lost in one configuration only is still lost), and the nightly Freeze gate."""
    return {
        "autotraits": ("autotraits", ["cargo", "build", "--offline"]),
        "autotraits-alloc": ("autotraits", ["cargo", "build", "--offline", "--no-default-features", "--features", "alloc"]),
        "autotraits-core": ("autotraits", ["cargo", "build", "--offline", "--no-default-features"]),
        "autotraits-nightly": ("autotraits-nightly", ["cargo", "+nightly", "build", "--offline", "--target-dir", os.path.join(verif, "target", "nightly")]),
    }


def autotraits_gate(ctx):
    """Tier C: compile gate. tz-rs builds but the gate does not => a public type lost an auto trait."""
    res = {}
    for name, (crate, argv) in gate_builds(ctx.verif).items():
        rc, out = o.sh(argv, cwd=os.path.join(ctx.verif, crate))
        res[name] = "builds" if rc == 0 else "FAILS"
        if rc != 0:
            ok, _ = o.tz_rs_builds(ctx.verif)
            if not ok:
                ctx.harness_errors.append(f"{name}: tz-rs itself does not build")
                continue
            if "could not compile `tz-rs`" in out:
                ctx.harness_errors.append(f"{name}: tz-rs does not build with this toolchain: {out[-400:]}")
                continue
            os.makedirs(ctx.replays, exist_ok=True)
            path = os.path.join(ctx.replays, f"C15-{name}.autotraits.txt")
            with open(path, "w") as f:
                f.write(f"# property C15\n# oracle C15.autotraits\n# replay: cd /verif/{crate} && {' '.join(argv)}\ngate {name}\n# ---- compiler output\n")
                for line in out.splitlines()[-80:]:
                    f.write("# " + line + "\n")
            lines = [l for l in out.splitlines() if "error" in l or "cannot be" in l or "is not satisfied" in l or "within" in l]
            ctx.found.append({"oracle": "C15.autotraits", "sig": name, "detail": "tz-rs builds but the auto-trait gate does not: " + " | ".join(lines[:6])[:700], "replay": path, "gate": name})
    return res


def plan_c15(ctx):
    thorough = ctx.tier == "thorough"
    gate = autotraits_gate(ctx)
    cold_every = 150 if thorough else 400
    res = o.run_workers(ctx, o.plan_run_jobs(ctx, "C15", o.BUDGET["C15"][ctx.tier], extra_args=["--cold-every", str(cold_every)]))
    o.handle_deaths(ctx, res)
    agg = o.collect(ctx)
    if thorough:
        miri = miri_runs(ctx, 128, [1, 2, 3, 4, 5, 6], ["0.05", "0.3"])
    else:
        miri = miri_runs(ctx, 12, [1, 2, 3], ["0.3"])
    o.required_probes(ctx, agg, ["zone_shared_between_threads", "switch_inside_resolution", "cold_child_evaluations", "env_flip", "clock_jump_backward", "clock_before_epoch", "torn_upgrade"])
    rule = ("tier A: one evaluation = one scenario with 2-4 client threads + optional installer + environment/clock actor under the baton scheduler (yield points: every operation boundary and inside the read seam); "
            "oracles: every recorded operation is executed again ALONE (after all threads have finished, in reverse order, on a fresh private copy rebuilt from the bytes it was decoded from, with reads and clock replayed) and must return the identical canonical result and open the identical paths; "
            "a sample of scenarios additionally evaluates every operation in a fresh child process (cold: no earlier call ever happened in that process); returned local time types must belong to the zone asked; now()/current() must equal the conversion of the simulated reading at the call; "
            "the calling thread's live heap returns to its pre-call value after each call; two executions of the same scenario give the same result digest. "
            "tier B: Miri executions of a dense 3-thread workload on shared zones (seeded preemption at basic-block granularity, data-race detector). tier C: compile gate for Send/Sync/Unpin/UnwindSafe and (nightly) Freeze on every public type. "
            "Non-trivial = at least one read, context switch or fault; distinct = distinct scenario digests")
    extra = {"miri": miri, "autotraits_gate": gate, "cold_every": cold_every,
             "not_decided": "the structural clause (no static / thread_local / Cell anywhere in future source text) is a whole-program syntactic scan, i.e. static analysis, outside this family; a present but behaviourally perfect, allocation-free global is invisible to any dynamic check"}
    return agg, rule, ["no two simulated threads run simultaneously in tier A (interleaving granularity = operation boundaries and read-seam crossings); finer interleavings only in the Miri tier", "Miri's scheduler and data-race detector"], extra


# ------------------------------------------------------------------ C19

FEATURE_SETS = (("core", []), ("alloc", ["--features", "alloc"]), ("std", ["--features", "std"]))


def plan_c19(ctx):
    feat_dir = os.path.join(ctx.verif, "featsim")
    builds = {}
    # 1. tz-rs alone in the three configurations, guard on (config.toml does not apply in /repo: pass it) and off
    for guard in ("off", "on"):
        for name, flags in FEATURE_SETS:
            argv = ["cargo", "build", "--offline", "--no-default-features"] + flags + ["--target-dir", os.path.join(ctx.verif, "target", f"repo-{guard}")]
            rc, out = o.sh(argv, cwd=REPO_DIR, extra_env={"RUSTFLAGS": "--cfg tz_rs_verif"} if guard == "on" else None)
            builds[f"tz-rs[{name}] guard {guard}"] = "builds" if rc == 0 else "FAILS"
            if rc != 0:
                if name == "std" and guard == "off":
                    ctx.harness_errors.append("tz-rs does not build with default features: " + out[-500:])
                    continue
                os.makedirs(ctx.replays, exist_ok=True)
                path = os.path.join(ctx.replays, f"C19-build-{name}-{guard}.build.txt")
                with open(path, "w") as f:
                    f.write(f"# property C19\n# oracle C19.build\n# replay: cd /repo && {' '.join(argv)}\nfeatures {name}\nguard {guard}\n# ---- compiler output\n")
                    for line in out.splitlines()[-60:]:
                        f.write("# " + line + "\n")
                errs = [l for l in out.splitlines() if l.startswith("error")]
                ctx.found.append({"oracle": "C19.build", "sig": f"{name}-guard-{guard}", "detail": f"tz-rs does not build with feature set {name} (guard {guard}): " + " | ".join(errs[:4])[:600], "replay": path, "build": (name, guard)})
    if any(f["oracle"] == "C19.build" for f in ctx.found):
        agg = o.collect(ctx)
        agg["evaluations"] = max(agg["evaluations"], len(builds))
        return agg, "feature-set builds", [], {"builds": builds}
    # 2. the worker three times
    bins = {}
    failed = {}
    for name, flags in (("core", []), ("alloc", ["--features", "tz-alloc"]), ("std", ["--features", "tz-std"])):
        td = os.path.join(ctx.verif, "target", f"feat-{name}")
        rc, out = o.sh(["cargo", "build", "--offline", "--release"] + flags + ["--target-dir", td], cwd=feat_dir)
        builds[f"consumer[{name}]"] = "builds" if rc == 0 else "FAILS"
        if rc != 0:
            failed[name] = out
        bins[name] = os.path.join(td, "release", "featsim")
    if failed:
        if "std" in failed:
            # the consumer does not even build against the full-featured crate: the API changed for everyone
            ctx.harness_errors.append(f"featsim[std] does not build: {failed['std'][-600:]}")
        else:
            # tz-rs builds alone in every configuration and the consumer builds with std, but the same consumer
            # code (api.rs: the API documented as available without std/alloc) does not build in a reduced one
            for name, out in failed.items():
                os.makedirs(ctx.replays, exist_ok=True)
                path = os.path.join(ctx.replays, f"C19-consumer-{name}.build.txt")
                with open(path, "w") as f:
                    f.write(f"# property C19\n# oracle C19.build\n# replay: cd /verif/featsim && cargo build --offline --release {'--features tz-' + name if name != 'core' else ''}\nconsumer {name}\n# ---- compiler output\n")
                    for line in out.splitlines()[-80:]:
                        f.write("# " + line + "\n")
                errs = [l for l in out.splitlines() if l.startswith("error")]
                ctx.found.append({"oracle": "C19.build", "sig": f"consumer-{name}", "detail": f"tz-rs builds alone with feature set {name}, and a consumer of the configuration-independent API builds with std, but the same consumer does not build with feature set {name}: " + " | ".join(errs[:4])[:700], "replay": path})
        agg = o.collect(ctx)
        agg["evaluations"] = max(agg["evaluations"], len(builds))
        return agg, "feature-set builds", [], {"builds": builds}
    # 3. same scenarios in all three workers
    total = o.BUDGET["C19"][ctx.tier]
    per = max(1, total // o.NPROC)
    jobs = []
    for name in ("core", "alloc", "std"):
        for k in range(o.NPROC):
            jobs.append({"argv": [bins[name], "run", "--seed", str(ctx.seed), "--start", str(k * per), "--count", str(per), "--out", ctx.out, "--worker", str(k)],
                         "crumb": os.path.join(ctx.out, f"crumb-{name}-{k}"), "label": f"featsim-{name}", "kind": "featsim", "prop": "C19", "worker": str(k), "first": k * per, "count": per, "build": name})
    res = o.run_workers(ctx, jobs)
    for r in res:
        if r["rc"] != 0 or r["died_at"] is not None:
            j = r["job"]
            idx = r["died_at"]
            if idx is None:
                ctx.harness_errors.append(f"featsim[{j['build']}] worker failed: {r['output'][-300:]}")
                continue
            path = write_c19_replay(ctx, bins, idx, "C19.digest", f"featsim[{j['build']}] died at scenario index {idx}")
            ctx.found.append({"oracle": "C19.digest", "sig": "worker-died", "detail": f"the {j['build']} build died while executing scenario index {idx}", "replay": path, "c19": True})
    # 4. compare
    evaluations = 0
    ops = 0
    mism = []
    for k in range(o.NPROC):
        data = {}
        for name in ("core", "alloc", "std"):
            try:
                data[name] = open(os.path.join(ctx.out, f"digests-{name}-{k}.bin"), "rb").read()
            except OSError:
                data[name] = b""
        n = min(len(d) for d in data.values()) // 16
        evaluations += n
        for i in range(n):
            c = [data[b][16 * i:16 * i + 8] for b in ("core", "alloc", "std")]
            a = [data[b][16 * i + 8:16 * i + 16] for b in ("alloc", "std")]
            if not (c[0] == c[1] == c[2]) or a[0] != a[1]:
                mism.append(k * per + i)
        for name in ("core", "alloc", "std"):
            try:
                st = json.load(open(os.path.join(ctx.out, f"fstats-{name}-{k}.json")))
            except Exception as e:
                ctx.harness_errors.append(f"featsim statistics missing for {name}/{k}: {e}")
                continue
            if name == "core":
                ops += st.get("ops", 0)
            for v in st.get("noalloc", [])[:2]:
                if not any(f["oracle"] == "C19.no_alloc" and f.get("build") == name for f in ctx.found):
                    path = write_c19_replay(ctx, bins, v["index"], "C19.no_alloc", v["detail"])
                    ctx.found.append({"oracle": "C19.no_alloc", "sig": name, "detail": f"scenario index {v['index']}: {v['detail']}", "replay": path, "c19": True, "build": name})
    for idx in mism[:2]:
        path = write_c19_replay(ctx, bins, idx, "C19.digest", "results differ between feature configurations")
        detail = c19_diff(bins, path)
        if detail.startswith("digests differ (no differing"):
            # not reproducible alone: depends on what the worker had executed before
            path = write_c19_replay(ctx, bins, idx, "C19.digest", "results differ between feature configurations (after the scenarios executed before it in the same process)", first=(idx // per) * per)
            detail = c19_diff(bins, path)
        ctx.found.append({"oracle": "C19.digest", "sig": "results-differ", "detail": f"scenario index {idx}: {detail}", "replay": path, "c19": True})
    agg = o.collect(ctx)
    agg["evaluations"] = evaluations
    agg["ops"] = ops
    # a sample
    rc, out = o.sh([bins["core"], "show", "C19", str(ctx.seed), "0"])
    agg["samples"] = ["per-operation results of scenario index 0 in the build without allocator:\n" + out[:3000]]
    rule = ("one evaluation = one explicit scenario (1-3 zones given as harness-owned slices, then 10-40 operations: lookups, DateTime/UtcDateTime construction and conversion, projection, find_n into a reused buffer, formatting into a stack buffer, "
            "constructors with boundary numbers; plus find / decoding / TimeZone::new where the API exists) executed by three builds of the worker whose dependency tz-rs has features {}, {alloc}, {alloc,std}; "
            "the per-scenario digest of the allocation-free surface must be equal in all three builds, the digest of the alloc surface equal in the two builds that have it; core-surface calls run with allocation forbidden in every build. "
            "Non-trivial = every scenario (each runs >= 10 operations); distinct = distinct scenario digests")
    extra = {"builds": builds, "scenarios_with_differing_digests": len(mism), "feature_sets": ["{}", "{alloc}", "{alloc,std}"]}
    return agg, rule, ["the harness itself is always built with std; only the dependency's feature set varies", "now()/local() (std-only, clock/filesystem dependent) are not part of the cross-build comparison"], extra


def write_c19_replay(ctx, bins, idx, oracle, detail, first=None):
    """`first`: index at which the worker that executed `idx` had started (the replay then executes
    first..idx in the same process before the scenario itself: state left behind is part of the input)."""
    os.makedirs(ctx.replays, exist_ok=True)
    rc, text = o.sh([bins["core"], "gen", str(ctx.seed), str(idx)])
    path = os.path.join(ctx.replays, f"C19-{idx}.c19.scn")
    with open(path, "w") as f:
        f.write(f"# property C19\n# oracle {oracle}\n# detail {detail}\n# verif_seed {ctx.seed}\n# index {idx}\n")
        if first is not None and first < idx:
            f.write(f"# first {first}\n")
        f.write(text)
    return path


def c19_exec_argv(binary, path):
    hdr = {}
    for line in open(path):
        if not line.startswith("# "):
            break
        parts = line[2:].split()
        if len(parts) == 2:
            hdr[parts[0]] = parts[1]
    argv = [binary, "exec", path]
    if "first" in hdr and "index" in hdr and "verif_seed" in hdr:
        argv += ["--prelude", hdr["verif_seed"], hdr["first"], hdr["index"]]
    return argv


def c19_diff(bins, path):
    outs = {}
    for name, b in bins.items():
        rc, out = o.sh(c19_exec_argv(b, path))
        outs[name] = [l for l in out.splitlines() if l.startswith("op ")]
    for surface, names in (("core", ("core", "alloc", "std")), ("alloc", ("alloc", "std"))):
        rows = [[l for l in outs[n] if f" {surface} " in l] for n in names]
        for i in range(min(len(r) for r in rows)):
            vals = {r[i] for r in rows}
            if len(vals) > 1:
                return " VS ".join(f"[{n}] {r[i][:300]}" for n, r in zip(names, rows))
    return "digests differ (no differing operation isolated)"


def replay_special(verif, path):
    """Replay of the non-scenario artefacts (compile gates, feature builds, Miri triples, C19 scenarios)."""
    text = open(path).read()
    kv = {}
    for line in text.splitlines():
        if line and not line.startswith("#") and " " in line:
            k, v = line.split(" ", 1)
            kv.setdefault(k, v)
    if path.endswith(".autotraits.txt"):
        name = kv.get("gate", "autotraits")
        crate, argv = gate_builds(verif).get(name, gate_builds(verif)["autotraits"])
        rc, out = o.sh(argv, cwd=os.path.join(verif, crate))
        print(out[-2000:])
        if rc != 0:
            print(f"VIOLATION property=C15 replay={path}")
            return 1
        return 0
    if path.endswith(".build.txt") and "consumer" in kv:
        name = kv["consumer"]
        flags = [] if name == "core" else ["--features", "tz-" + name]
        rc, out = o.sh(["cargo", "build", "--offline", "--release"] + flags + ["--target-dir", os.path.join(verif, "target", f"feat-{name}")], cwd=os.path.join(verif, "featsim"))
        print(out[-2000:])
        if rc != 0:
            print(f"VIOLATION property=C19 replay={path}")
            return 1
        return 0
    if path.endswith(".build.txt"):
        name, guard = kv.get("features", "core"), kv.get("guard", "off")
        flags = dict(FEATURE_SETS)[name]
        rc, out = o.sh(["cargo", "build", "--offline", "--no-default-features"] + flags + ["--target-dir", os.path.join(verif, "target", f"repo-{guard}")], cwd=REPO_DIR, extra_env={"RUSTFLAGS": "--cfg tz_rs_verif"} if guard == "on" else None)
        print(out[-2000:])
        if rc != 0:
            print(f"VIOLATION property=C19 replay={path}")
            return 1
        return 0
    if path.endswith(".miri.txt"):
        e = {"MIRIFLAGS": f"-Zmiri-seed={kv.get('miri_seed', '0')} -Zmiri-preemption-rate={kv.get('rate', '0.3')}"}
        rc, out = o.sh(["cargo", "+nightly", "miri", "run", "--offline", "--target-dir", os.path.join(verif, "target", "miri"), "--", kv.get("workload", "1"), kv.get("threads", "3"), kv.get("calls", "24"), kv.get("mode", "light")], cwd=os.path.join(verif, "tzsim-miri"), extra_env=e, timeout=1800)
        print(out[-3000:])
        if rc != 0 or "ok workload=" not in out:
            print(f"VIOLATION property=C15 replay={path}")
            return 1
        return 0
    if path.endswith(".c19.scn"):
        bins = {}
        for name, flags in (("core", []), ("alloc", ["--features", "tz-alloc"]), ("std", ["--features", "tz-std"])):
            td = os.path.join(verif, "target", f"feat-{name}")
            rc, out = o.sh(["cargo", "build", "--offline", "--release"] + flags + ["--target-dir", td], cwd=os.path.join(verif, "featsim"))
            if rc != 0:
                print(out[-1500:])
                return 2
            bins[name] = os.path.join(td, "release", "featsim")
        outs = {}
        bad = False
        for name, b in bins.items():
            rc, out = o.sh(c19_exec_argv(b, path))
            print(out)
            outs[name] = out
            if rc != 0 or "NOALLOC" in out:
                bad = True
        def dig(n, key):
            return next((l for l in outs[n].splitlines() if l.startswith(key)), None)
        if not (dig("core", "core_digest") == dig("alloc", "core_digest") == dig("std", "core_digest")) or dig("alloc", "alloc_digest") != dig("std", "alloc_digest"):
            bad = True
        if bad:
            print(f"VIOLATION property=C19 replay={path}")
            return 1
        print("no violation of C19 on replay")
        return 0
    return None


PLANS = {"C20": plan_c20, "C17": plan_c17, "C08": plan_c08, "C07": plan_c07, "C15": plan_c15, "C19": plan_c19}


def selftest(verif):
    """Harness self-test: internal consistency, then determinism across processes and worker counts."""
    import shutil
    tz = os.path.join(verif, "target", "release", "tzsim")
    p = subprocess.run([tz, "selftest"], env=o.env())
    if p.returncode != 0:
        return 2
    out = os.path.join(verif, "target", "runs", "selftest")
    shutil.rmtree(out, ignore_errors=True)
    os.makedirs(out, exist_ok=True)
    bad = 0
    n_per = {"C20": 6000, "C15": 3000, "C07": 12000, "C08": 12000, "C17": 12000}
    for prop, n in n_per.items():
        procs = []
        # arrangement A: one process; B: four processes over contiguous quarters; C: twelve interleaved chunks, started in reverse order
        arrangements = {"A": [(0, n)], "B": [(k * (n // 4), n // 4) for k in range(4)], "C": [(k * (n // 12), n // 12) for k in reversed(range(12))]}
        for name, parts in arrangements.items():
            for (start, count) in parts:
                d = os.path.join(out, f"{prop}-{name}-{start}")
                procs.append(subprocess.Popen([tz, "run", prop, "--seed", "12345", "--start", str(start), "--count", str(count), "--out", d, "--worker", "0", "--replays", os.path.join(out, "replays"), "--dump", os.path.join(out, f"dump-{prop}-{name}-{start}.txt"), "--recheck-every", "7"], env=o.env(), stdout=subprocess.DEVNULL, stderr=subprocess.DEVNULL))
        for pr in procs:
            pr.wait()
        maps = {}
        for name in arrangements:
            m = {}
            for path in glob.glob(os.path.join(out, f"dump-{prop}-{name}-*.txt")):
                for line in open(path):
                    i, rest = line.split(" ", 1)
                    m[int(i)] = rest.strip()
            maps[name] = m
        for name in ("B", "C"):
            common = set(maps["A"]) & set(maps[name])
            diff = [i for i in common if maps["A"][i] != maps[name][i]]
            print(f"selftest determinism {prop}: arrangement A vs {name}: {len(common)} scenarios compared, {len(diff)} differ")
            if diff or len(common) < (n // 12) * 12 * 0.99:
                bad += 1
                for i in diff[:3]:
                    print("   index", i, maps["A"][i], "vs", maps[name][i])
        for path in glob.glob(os.path.join(out, f"{prop}-*", "stats-0.json")):
            d = json.load(open(path))
            if d.get("recheck_mismatch", 0) or d.get("harness_errors"):
                bad += 1
                print("selftest: in-process re-execution mismatch in", path, d.get("harness_errors"))
    print("selftest determinism:", "ok" if bad == 0 else "FAILED")
    return 0 if bad == 0 else 2
