"""Per-property check plans."""
import os
import subprocess
import orchestrate as o


def plan_c20(ctx):
    agg, rule, assumptions = o.check_c20(ctx)
    return agg, rule, assumptions, {}


def plan_c17(ctx):
    agg, rule, assumptions = o.check_c17(ctx)
    return agg, rule, assumptions, {}


PLANS = {"C20": plan_c20, "C17": plan_c17}


def selftest(verif):
    p = subprocess.run([os.path.join(verif, "target", "release", "tzsim"), "selftest"], env=o.env())
    return p.returncode
