"""Orchestration: build, fan out workers, contain crashes, merge statistics, apply the
known-findings file, confirm replays, write evidence."""
import glob
import json
import os
import shutil
import subprocess
import sys
import time

NPROC = max(1, min(16, os.cpu_count() or 1))
DEFAULT_SEED = 20260929

LEVEL = {"C07": "exploration", "C08": "fault_enumeration", "C15": "exploration", "C17": "exploration", "C19": "exploration", "C20": "exploration"}

# scenarios per tier (fixed counts: the every-change check is the same execution set every time)
BUDGET = {
    "C20": {"quick": 320_000, "thorough": 6_000_000},
    "C15": {"quick": 128_000, "thorough": 3_000_000},
    "C07": {"quick": 1_200_000, "thorough": 24_000_000},
    "C08": {"quick": 1_600_000, "thorough": 32_000_000},
    "C17": {"quick": 800_000, "thorough": 16_000_000},
    "C19": {"quick": 480_000, "thorough": 8_000_000},
}

# sensitivity runs may scale the budgets down (never used by the registered commands)
try:
    _SCALE = float(os.environ.get("TZSIM_BUDGET_SCALE", "1"))
except ValueError:
    _SCALE = 1.0
if _SCALE != 1.0:
    for _p in BUDGET:
        for _t in BUDGET[_p]:
            BUDGET[_p][_t] = max(1600, int(BUDGET[_p][_t] * _SCALE))

COMPONENTS = {
    "real": ["the whole tz-rs crate built from /repo's working tree", "std threads (one OS thread per simulated client/installer/environment actor)", "the process environment (TZ, TZDIR, LANG, LC_ALL really set/unset)", "the system allocator underneath the counting wrapper", "C15 live operations: real files under target/live/<pid>, replaced by write + rename, read by std::fs::read through the library's default settings; the system calls are real, who runs between them is decided by the scenario (shim callback)"],
    "stub": ["filesystem: in-memory SimFs behind TimeZoneSettings' read function", "clock: simulated reading through the cfg(tz_rs_verif) hook", "scheduler: baton passed at operation boundaries and inside the read seam, decided by the scenario", "installer / zic: the harness's independent TZif writer and typed-corruption catalogue"],
}


VERIF_DIR = os.path.dirname(os.path.dirname(os.path.abspath(__file__)))
# the repository under test (overridden only by the scratch copies that tools/scratch.sh makes)
REPO_DIR = os.environ.get("TZSIM_REPO", "/repo")


def env(shim=False):
    e = dict(os.environ)
    e.pop("LD_PRELOAD", None)
    e["CARGO_NET_OFFLINE"] = "true"
    e["TZSIM_CORPUS"] = os.path.join(VERIF_DIR, "corpus")
    # the system-call seam (counts requests for the real clock / environment / file system / cwd / pid)
    lib = os.path.join(VERIF_DIR, "target", "libtzseam.so")
    if shim and os.path.exists(lib):
        # only the simulator's own worker processes run under the shim (never cargo, rustc or Miri)
        e["LD_PRELOAD"] = lib
    e.pop("RUSTFLAGS", None)  # .cargo/config.toml carries --cfg tz_rs_verif
    return e


def sh(argv, cwd=None, timeout=None, extra_env=None):
    e = env()
    if argv and argv[0] in ("cargo", "git", "cc"):
        e.pop("LD_PRELOAD", None)
    if extra_env:
        e.update(extra_env)
    p = subprocess.run(argv, cwd=cwd, env=e, stdout=subprocess.PIPE, stderr=subprocess.STDOUT, text=True, timeout=timeout)
    return p.returncode, p.stdout


class Ctx:
    def __init__(self, verif, prop, tier):
        self.verif = verif
        self.prop = prop
        self.tier = tier
        try:
            self.seed = int(os.environ.get("VERIF_SEED", DEFAULT_SEED))
        except ValueError:
            self.seed = DEFAULT_SEED
        self.t0 = time.time()
        self.out = os.path.join(verif, "target", "runs", f"{prop}-{tier}")
        self.replays = os.path.join(verif, "replays")
        self.tzsim = os.path.join(verif, "target", "release", "tzsim")
        self.harness_errors = []
        self.found = []  # dicts oracle, sig, detail, replay
        self.stats = []
        self.notes = []
        self.extra = {}
        self.unconfirmed = []
        self.confirmed_oracles = set()


def build_tzsim(verif, profile="release"):
    argv = ["cargo", "build", "--offline", "--profile", profile] if profile != "release" else ["cargo", "build", "--offline", "--release"]
    rc, out = sh(argv, cwd=os.path.join(verif, "tzsim"))
    return rc, out


def tz_rs_builds(verif):
    rc, out = sh(["cargo", "build", "--offline", "--target-dir", os.path.join(verif, "target", "repo-probe")], cwd=REPO_DIR)
    return rc == 0, out


def build_shim(verif):
    """The LD_PRELOAD seam is plain C; without a C compiler the ambient-read oracle is simply off."""
    src = os.path.join(verif, "seam", "seam.c")
    dst = os.path.join(verif, "target", "libtzseam.so")
    os.makedirs(os.path.dirname(dst), exist_ok=True)
    try:
        if os.path.exists(dst) and os.path.getmtime(dst) >= os.path.getmtime(src):
            return True
        e = dict(os.environ)
        e.pop("LD_PRELOAD", None)
        p = subprocess.run(["cc", "-shared", "-fPIC", "-O2", "-o", dst + ".tmp", src, "-ldl"], env=e, stdout=subprocess.PIPE, stderr=subprocess.STDOUT, text=True, timeout=120)
        if p.returncode == 0:
            os.replace(dst + ".tmp", dst)
            return True
        print("note: the system-call seam could not be built (ambient-read oracle off):", p.stdout[-300:])
    except Exception as ex:  # noqa: BLE001
        print("note: the system-call seam could not be built (ambient-read oracle off):", ex)
    return False


def ensure_built(verif):
    """Rebuild the worker from /repo's working tree. Exit 2 if it cannot be built."""
    build_shim(verif)
    rc, out = build_tzsim(verif)
    if rc != 0:
        ok, out2 = tz_rs_builds(verif)
        sys.stdout.write(out[-4000:])
        if not ok:
            print("HARNESS-ERROR: tz-rs itself does not build with --cfg tz_rs_verif")
            sys.stdout.write(out2[-3000:])
        else:
            print("HARNESS-ERROR: tz-rs builds but the simulator does not (public API changed?)")
        return False
    return True


# --------------------------------------------------------------------------- workers

def cpu_seconds(pid):
    try:
        with open(f"/proc/{pid}/stat") as f:
            parts = f.read().rsplit(")", 1)[1].split()
        return (int(parts[11]) + int(parts[12])) / os.sysconf("SC_CLK_TCK")
    except Exception:
        return None


def read_crumb(path):
    try:
        with open(path, "rb") as f:
            b = f.read(96)
        idx = int(b[4:24]) if b[:4] == b"IDX " else None
        cap = int(b[36:56]) if b[32:36] == b"CAP " else None
        done = b[64:68] == b"DONE"
        return idx, cap, done
    except Exception:
        return None, None, False


BLOCKED_WALL_S = 240


def read_tail(path, n=20000):
    try:
        with open(path, "rb") as f:
            f.seek(0, 2)
            size = f.tell()
            f.seek(max(0, size - n))
            return f.read().decode("utf-8", "replace")
    except OSError:
        return ""


def run_workers(ctx, jobs, hang_cpu_s=75):
    """jobs: list of dict(argv, crumb, label, kind, first, count). Runs up to NPROC at a time.
    Returns list of dict(job, rc, died_at)."""
    pending = list(jobs)
    running = []
    results = []
    while pending or running:
        while pending and len(running) < NPROC:
            j = pending.pop(0)
            # output goes to a file, never to a pipe: a library that starts writing to stdout/stderr must not
            # be able to block the worker on a full pipe
            os.makedirs(ctx.out, exist_ok=True)
            logp = os.path.join(ctx.out, f"log-{j.get('label', 'job')}-{j.get('build', '')}{j.get('worker', len(results) + len(running))}.txt")
            logf = open(logp, "wb")
            p = subprocess.Popen(j["argv"], env=env(shim=True), stdout=logf, stderr=subprocess.STDOUT, stdin=subprocess.DEVNULL)
            logf.close()
            running.append({"job": j, "p": p, "last_idx": None, "cpu_at_idx": 0.0, "log": logp, "wall_at_idx": time.time(), "cpu_seen": 0.0, "wall_cpu": time.time()})
        time.sleep(0.05)
        for r in list(running):
            p = r["p"]
            rc = p.poll()
            if rc is None:
                idx, _, _ = read_crumb(r["job"]["crumb"])
                cpu = cpu_seconds(p.pid) or 0.0
                now = time.time()
                if cpu > r["cpu_seen"] + 0.05:
                    r["cpu_seen"] = cpu
                    r["wall_cpu"] = now
                if idx != r["last_idx"]:
                    r["last_idx"] = idx
                    r["cpu_at_idx"] = cpu
                    r["wall_at_idx"] = now
                elif cpu - r["cpu_at_idx"] > hang_cpu_s or (now - r["wall_at_idx"] > BLOCKED_WALL_S and now - r["wall_cpu"] > BLOCKED_WALL_S):
                    # spinning (CPU time without progress) or blocked (neither progress nor CPU time for minutes)
                    p.kill()
                    p.wait()
                    running.remove(r)
                    results.append({"job": r["job"], "rc": -9, "hang": True, "died_at": idx, "output": read_tail(r["log"])})
                continue
            out = read_tail(r["log"])
            running.remove(r)
            idx, cap, done = read_crumb(r["job"]["crumb"])
            results.append({"job": r["job"], "rc": rc, "hang": False, "died_at": None if (rc == 0 and done) else idx, "cap": cap, "output": out})
    return results


def plan_run_jobs(ctx, prop, total, extra_args=(), label="run", tag=""):
    per = max(1, total // NPROC)
    jobs = []
    for k in range(NPROC):
        out = ctx.out
        argv = [ctx.tzsim, "run", prop, "--seed", str(ctx.seed), "--start", str(k * per), "--count", str(per), "--out", out, "--worker", f"{tag}{k}", "--replays", ctx.replays] + list(extra_args)
        jobs.append({"argv": argv, "crumb": os.path.join(out, f"crumb-{tag}{k}"), "label": label, "kind": "run", "prop": prop, "first": k * per, "count": per, "worker": f"{tag}{k}"})
    return jobs


def plan_sweep_jobs(ctx, kind, permille, generated, prop=None, tag=""):
    jobs = []
    for k in range(NPROC):
        argv = [ctx.tzsim, "sweep", kind, "--prop", prop or ctx.prop, "--out", ctx.out, "--worker", str(k), "--of", str(NPROC), "--sample-permille", str(permille), "--seed", str(ctx.seed), "--generated", str(generated), "--replays", ctx.replays]
        if tag:
            argv += ["--tag", tag]
        jobs.append({"argv": argv, "crumb": os.path.join(ctx.out, f"crumb-{kind}-{tag}{k}"), "label": f"sweep-{kind}", "kind": "sweep", "prop": prop or ctx.prop, "sweep": kind, "worker": f"{tag}{k}"})
    return jobs


def handle_deaths(ctx, results):
    """Crash containment: a worker that died or hung names the scenario index in its breadcrumb."""
    for r in results:
        if r["rc"] == 0 and r["died_at"] is None:
            continue
        j = r["job"]
        what = "hung (CPU time without progress)" if r.get("hang") else f"died with status {r['rc']}"
        if "HARNESS PANIC" in (r.get("output") or ""):
            ctx.harness_errors.append(f"worker {j['label']}/{j['worker']}: {r['output'][-400:].strip()} (near scenario index {r['died_at']})")
            continue
        if j["kind"] not in ("run", "sweep") or r["died_at"] is None:
            ctx.harness_errors.append(f"worker {j['label']}/{j['worker']} {what}; output: {r['output'][-600:]}")
            continue
        idx = r["died_at"]
        # regenerate that scenario, write it as a replay file and confirm it kills a fresh process too
        if j["kind"] == "sweep":
            rc, text = sh(j["argv"] + ["--emit-crumb", str(idx)])
        else:
            rc, text = sh([ctx.tzsim, "genidx", j["prop"], str(ctx.seed), str(idx)])
        if rc != 0:
            ctx.harness_errors.append(f"cannot regenerate scenario index {idx}: {text[-300:]}")
            continue
        os.makedirs(ctx.replays, exist_ok=True)
        oracle = "C07.hang" if r.get("hang") else ("C07.alloc_cap" if r.get("cap") else "C07.abort")
        path = os.path.join(ctx.replays, f"{j['prop']}-crash-{j['label']}-{idx}.scn")
        with open(path, "w") as f:
            prof = next((k for k, d in PROFILE_DIRS.items() if f"/target/{d}/" in j["argv"][0]), "release")
            f.write(f"# property {j['prop']}\n# oracle {oracle}\n# signature worker-died\n# profile {prof}\n# detail worker {what} while executing scenario index {idx}" + (f" (allocation request of {r['cap']} bytes refused)" if r.get("cap") else "") + "\n")
            f.write(text)
        ctx.found.append({"oracle": oracle, "sig": "worker-died", "detail": f"worker {what} while executing scenario index {idx}" + (f"; a single allocation of {r['cap']} bytes was requested" if r.get("cap") else ""), "replay": path, "crash": True})


def collect(ctx):
    agg = {"evaluations": 0, "switches": 0, "yields": 0, "reads": 0, "ops": 0, "clock_advance_ns": 0, "foreign": 0, "rechecks": 0, "recheck_mismatch": 0, "faults": {}, "probes": {}, "samples": [], "first_seed": None, "worker_wall_s": 0.0}
    for path in sorted(glob.glob(os.path.join(ctx.out, "stats-*.json"))):
        try:
            with open(path) as f:
                d = json.load(f)
        except Exception as e:
            ctx.harness_errors.append(f"unreadable worker statistics {path}: {e}")
            continue
        agg["evaluations"] += d.get("evaluations", 0)
        for k in ("switches", "yields", "reads", "ops", "clock_advance_ns", "foreign", "rechecks", "recheck_mismatch"):
            agg[k] += d.get(k, 0)
        agg["worker_wall_s"] = max(agg["worker_wall_s"], d.get("wall_s", 0.0))
        if "syscall_seam" in d:
            agg["global_state_observation"] = {"syscall_seam_loaded": d["syscall_seam"], "static_data_bytes_compared_per_call": d.get("static_bytes_compared"), "tls_bytes_compared_per_call": d.get("tls_bytes_compared")}
        for k, v in d.get("faults", {}).items():
            agg["faults"][k] = agg["faults"].get(k, 0) + v
        for k, v in d.get("probes", {}).items():
            agg["probes"][k] = agg["probes"].get(k, 0) + v
        if agg["first_seed"] is None and "first_seed" in d:
            agg["first_seed"] = d["first_seed"]
        for s in d.get("samples", []):
            if len(agg["samples"]) < 4:
                agg["samples"].append(s)
        for e in d.get("harness_errors", []):
            ctx.harness_errors.append(e)
        for fnd in d.get("found", []):
            ctx.found.append(fnd)
    rc, out = sh([ctx.tzsim, "merge", ctx.out])
    try:
        m = json.loads(out.strip().splitlines()[-1])
    except Exception:
        m = {}
        ctx.harness_errors.append(f"digest merge failed: {out[-300:]}")
    agg["merge"] = m
    return agg


# --------------------------------------------------------------------------- findings

def load_known(verif):
    known = []
    path = os.path.join(verif, "known_findings.txt")
    if os.path.exists(path):
        for line in open(path):
            line = line.strip()
            if line.startswith("known:"):
                parts = line[len("known:"):].split()
                d = {}
                rest = []
                for p in parts:
                    if "=" in p and p.split("=", 1)[0] in ("property", "oracle", "sig") and p.split("=", 1)[0] not in d:
                        d[p.split("=", 1)[0]] = p.split("=", 1)[1]
                    else:
                        rest.append(p)
                d["what"] = " ".join(rest)
                known.append(d)
    return known


PROFILE_DIRS = {"release": "release", "plain": "plain", "dev": "debug"}


def replay_profile(path):
    """Build profile named in a replay file's header (default: release)."""
    try:
        with open(path, errors="replace") as f:
            for line in f:
                if not line.startswith("#"):
                    break
                if line.startswith("# profile "):
                    p = line.split()[2]
                    return p if p in PROFILE_DIRS else "release"
    except OSError:
        pass
    return "release"


def binary_for(verif, profile, build=False):
    path = os.path.join(verif, "target", PROFILE_DIRS[profile], "tzsim")
    if build and profile != "release":
        sh(["cargo", "build", "--offline", "--profile", profile], cwd=os.path.join(verif, "tzsim"))
    return path


def confirm_replay(ctx, f):
    """A violation is reported only after its replay file reproduced in a fresh process."""
    path = f.get("replay")
    if not path:
        return False
    if path.endswith((".autotraits.txt", ".build.txt", ".miri.txt", ".c19.scn")):
        try:
            p = subprocess.run([sys.executable, os.path.join(ctx.verif, "check"), "replay", path], env=env(), stdout=subprocess.PIPE, stderr=subprocess.STDOUT, text=True, timeout=3600)
        except subprocess.TimeoutExpired:
            return False
        return p.returncode == 1
    try:
        p = subprocess.run([binary_for(ctx.verif, replay_profile(path)), "replay", path, "--quiet"], env=env(shim=True), stdout=subprocess.PIPE, stderr=subprocess.STDOUT, text=True, timeout=45 if f.get("crash") else 300)
    except subprocess.TimeoutExpired:
        return bool(f.get("crash"))
    if f.get("crash"):
        return p.returncode not in (0, 2) or p.returncode < 0
    return p.returncode == 1


def report(ctx):
    """Print KNOWN-FINDING / VIOLATION lines. Returns number of unlisted violations."""
    known = load_known(ctx.verif)
    by_key = {}
    for f in ctx.found:
        by_key.setdefault((f["oracle"], f["sig"]), []).append(f)
    violations = 0
    printed_known = set()
    for (oracle, sig), cands in sorted(by_key.items()):
        k = next((k for k in known if k.get("oracle") == oracle and k.get("sig") == sig and k.get("property") == ctx.prop), None)
        if k is not None:
            if (oracle, sig) not in printed_known:
                print(f"KNOWN-FINDING: property={ctx.prop} {k['what']}")
                printed_known.add((oracle, sig))
            continue
        # the same oracle may already have been reported under another signature with a confirmed replay
        confirmed = None
        tried = 0
        for f in cands:
            if not f.get("replay"):
                continue
            tried += 1
            if confirm_replay(ctx, f):
                confirmed = f
                break
            if tried >= 6:
                break
        if confirmed is None:
            ctx.unconfirmed.append((oracle, sig, cands[0]["detail"][:300], tried))
            continue
        violations += 1
        ctx.confirmed_oracles.add(oracle)
        print(f"violated oracle {oracle} ({sig}): {confirmed['detail'][:1000]}")
        print(f"VIOLATION property={ctx.prop} replay={confirmed['replay']}")
    for (oracle, sig, detail, tried) in ctx.unconfirmed:
        if oracle in ctx.confirmed_oracles:
            # same oracle confirmed under another signature: this one is a variant without its own replay
            continue
        ctx.harness_errors.append(f"finding {oracle} {sig} has no replay file that reproduces in a fresh process ({tried} tried): {detail}")
    return violations


# --------------------------------------------------------------------------- evidence

def write_evidence(ctx, agg, rule, violations, extra_cov=None, assumptions=None):
    wall = time.time() - ctx.t0
    m = agg.get("merge", {})
    cov = {
        "evaluations": int(agg["evaluations"]),
        "distinct_nontrivial": int(m.get("nontrivial_distinct", 0)),
        "rule": rule,
        "samples": agg["samples"][:4] if agg["samples"] else ["(no sample recorded)"],
        "runs_per_hour": int(agg["evaluations"] / max(wall, 1e-9) * 3600),
        "seeds": {"VERIF_SEED": ctx.seed, "first_scenario_seed": agg.get("first_seed"), "scenario_seed_i": "splitmix64(VERIF_SEED xor fnv1a(property)) + i"},
        "simulated_time_s": agg["clock_advance_ns"] / 1e9,
        "fault_kinds_fired": agg["faults"],
        "probes": agg["probes"],
        "distinct_interleavings": int(m.get("interleavings_distinct", 0)),
        "interleaving_measure": "distinct FNV hashes of the sequence of (thread, yield kind, chosen thread) decisions among runs with at least one context switch",
        "distinct_states": int(m.get("states_distinct", 0)),
        "state_measure": "distinct (operation kind, outcome class) pairs reached",
        "context_switches": agg["switches"],
        "yield_points": agg["yields"],
        "reads_through_seam": agg["reads"],
        "operations": agg["ops"],
        "components": COMPONENTS,
        "determinism_recheck": {"scenarios_executed_twice": agg["rechecks"], "mismatches": agg["recheck_mismatch"]},
        "findings_of_other_properties_oracles_seen": agg["foreign"],
        "global_state_observation": agg.get("global_state_observation", {}),
        "harness_errors": ctx.harness_errors[:10],
        "notes": ctx.notes,
    }
    if extra_cov:
        cov.update(extra_cov)
    ev = {
        "property_id": ctx.prop,
        "tier": ctx.tier,
        "seed": ctx.seed,
        "level": LEVEL[ctx.prop],
        "coverage": cov,
        "assumptions": assumptions or [],
        "wall_s": round(wall, 3),
        "violations": violations,
    }
    evdir = os.path.join(ctx.verif, "evidence") if _SCALE == 1.0 else os.path.join(ctx.verif, "target", "scaled-evidence")
    os.makedirs(evdir, exist_ok=True)
    path = os.path.join(evdir, f"{ctx.prop}.json")
    with open(path, "w") as f:
        json.dump(ev, f, indent=1, sort_keys=True)
        f.write("\n")
    return path


# --------------------------------------------------------------------------- per-property plans

def required_probes(ctx, agg, names):
    """Rare-branch probes that must not be stuck at zero (a workload problem, not a violation)."""
    missing = [n for n in names if agg["probes"].get(n, 0) == 0 and agg["faults"].get(n, 0) == 0]
    if missing:
        ctx.notes.append("probes stuck at zero in this run: " + ", ".join(missing))
    return missing


def check_c20(ctx):
    total = BUDGET["C20"][ctx.tier]
    res = run_workers(ctx, plan_run_jobs(ctx, "C20", total))
    handle_deaths(ctx, res)
    agg = collect(ctx)
    required_probes(ctx, agg, ["file_won_over_parsable_description", "later_directory_won", "switch_inside_resolution", "description_trimmed", "malformed_file_read", "forced_lookup_unreadable", "extension_only_description", "non_ascii_whitespace_not_trimmed", "torn_upgrade", "literal_localtime"])
    rule = ("one evaluation = one generated scenario (virtual filesystem + 1-3 resolving clients + optional installer + read-fault table + schedule) executed under the baton scheduler; "
            "every resolve is checked against the reference resolver that consumes the actual outcome of each read. Non-trivial = at least one read went through the seam, "
            "a fault fired or a context switch happened; distinct = distinct FNV-1a digests of the explicit scenario text, merged over all workers")
    return agg, rule, ["the reference resolver (lib: tzsim/src/oracle.rs) is a faithful reading of the property text", "literal dir + '/' + name joining; non-unix branch not compiled"]


def check_c17(ctx):
    total = BUDGET["C17"][ctx.tier]
    res = run_workers(ctx, plan_run_jobs(ctx, "C17", total))
    handle_deaths(ctx, res)
    agg = collect(ctx)
    required_probes(ctx, agg, ["findn_buffer_smaller_than_result", "findn_zero_length_buffer", "findn_k_ge_2", "findn_k_ge_3", "findn_skipped_result", "findn_stale_tail_present", "findn_error", "findn_k_eq_0"])
    rule = ("one evaluation = one history of 10-40 find_n / find / resize calls over long-lived caller buffers that are never cleared, against 1-3 zones; every find_n is compared "
            "field by field with the allocating find (count, prefix, exhaustive flag, untouched tail, accessors). Non-trivial = at least two operations ran; distinct = distinct scenario digests")
    return agg, rule, ["DateTime::find is the reference model (the property is stated relative to it)"]


def check_simple(ctx, prop, probes, rule, assumptions, extra_args=()):
    total = BUDGET[prop][ctx.tier]
    res = run_workers(ctx, plan_run_jobs(ctx, prop, total, extra_args))
    handle_deaths(ctx, res)
    agg = collect(ctx)
    required_probes(ctx, agg, probes)
    return agg, rule, assumptions


def run_check(verif, prop, tier):
    ctx = Ctx(verif, prop, tier)
    print(f"tzsim check {prop} {tier}: VERIF_SEED={ctx.seed} workers={NPROC}")
    if not ensure_built(verif):
        return 2
    shutil.rmtree(ctx.out, ignore_errors=True)
    os.makedirs(ctx.out, exist_ok=True)
    # replay files of earlier runs of this property are superseded by this run
    for old in glob.glob(os.path.join(ctx.replays, f"{prop}-*")):
        try:
            os.remove(old)
        except OSError:
            pass
    from plans import PLANS
    if prop not in PLANS:
        print(f"unknown property {prop}")
        return 2
    agg, rule, assumptions, extra = PLANS[prop](ctx)
    violations = report(ctx)
    if agg.get("recheck_mismatch", 0) and not violations:
        ctx.harness_errors.append(f"{agg['recheck_mismatch']} scenario(s) gave a different history when executed a second time in the same process, and no oracle explains it")
    path = write_evidence(ctx, agg, rule, violations, extra, assumptions)
    wall = time.time() - ctx.t0
    print(f"{prop} {tier}: {agg['evaluations']} evaluations, {agg.get('merge', {}).get('nontrivial_distinct', 0)} distinct non-trivial, {violations} violation(s), {len(ctx.harness_errors)} harness error(s), {wall:.1f}s; evidence {path}")
    for n in ctx.notes:
        print("note:", n)
    if ctx.harness_errors:
        for e in ctx.harness_errors[:10]:
            print("HARNESS-ERROR:", e)
    if violations:
        return 1
    if ctx.harness_errors:
        return 2
    return 0


def main(verif, argv):
    if not argv:
        print(__doc__)
        return 2
    if argv[0] == "build":
        if not ensure_built(verif):
            return 2
        # everything else the quick checks need, so that their own rebuilds are no-ops
        rc_all = 0
        steps = []
        for name, flags in (("core", []), ("alloc", ["--features", "tz-alloc"]), ("std", ["--features", "tz-std"])):
            steps.append((["cargo", "build", "--offline", "--release"] + flags + ["--target-dir", os.path.join(verif, "target", f"feat-{name}")], os.path.join(verif, "featsim"), None))
        for fl in ([], ["--no-default-features", "--features", "alloc"], ["--no-default-features"]):
            steps.append((["cargo", "build", "--offline"] + fl, os.path.join(verif, "autotraits"), None))
        steps.append((["cargo", "+nightly", "build", "--offline", "--target-dir", os.path.join(verif, "target", "nightly")], os.path.join(verif, "autotraits-nightly"), None))
        steps.append((["cargo", "+nightly", "miri", "run", "--offline", "--target-dir", os.path.join(verif, "target", "miri"), "--", "0", "1", "1"], os.path.join(verif, "tzsim-miri"), {"MIRIFLAGS": "-Zmiri-seed=0"}))
        for guard in ("off", "on"):
            for fl in ([], ["--features", "alloc"], ["--features", "std"]):
                steps.append((["cargo", "build", "--offline", "--no-default-features"] + fl + ["--target-dir", os.path.join(verif, "target", f"repo-{guard}")], REPO_DIR, {"RUSTFLAGS": "--cfg tz_rs_verif"} if guard == "on" else None))
        for argv2, cwd, ee in steps:
            rc, out = sh(argv2, cwd=cwd, extra_env=ee, timeout=3600)
            if rc != 0:
                print("build step failed:", " ".join(argv2), "in", cwd)
                sys.stdout.write(out[-1500:])
                rc_all = 2
        print("build: ok" if rc_all == 0 else "build: FAILED")
        return rc_all
    if argv[0] == "replay":
        if len(argv) < 2:
            print("usage: ./check replay <file>")
            return 2
        if argv[1].endswith((".autotraits.txt", ".build.txt", ".miri.txt", ".c19.scn")):
            from plans import replay_special
            r = replay_special(verif, argv[1])
            return 2 if r is None else r
        if not ensure_built(verif):
            return 2
        p = subprocess.run([binary_for(verif, replay_profile(argv[1]), build=True), "replay"] + argv[1:], env=env(shim=True))
        return p.returncode if p.returncode >= 0 else 1
    if argv[0] == "selftest":
        if not ensure_built(verif):
            return 2
        from plans import selftest
        return selftest(verif)
    if len(argv) < 2:
        tier = os.environ.get("VERIF_TIER", "quick")
    else:
        tier = argv[1]
    if tier not in ("quick", "thorough"):
        print("tier must be quick or thorough")
        return 2
    return run_check(verif, argv[0], tier)
