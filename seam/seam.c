/* tzseam: an LD_PRELOAD system-call seam for the tz-rs simulator.
 *
 * The simulated world reaches tz-rs only through the injected read function and the guarded
 * clock hook. Whatever ELSE the library asks of the operating system during a call - the
 * environment, the real clock, the real file system, the working directory, the process id -
 * is ambient process state the result must not depend on. This shim counts those requests
 * (it never changes their outcome); the worker reads the counters before and after each
 * library call.  Build: cc -shared -fPIC -O2 -o libtzseam.so seam.c -ldl
 */
#define _GNU_SOURCE
#include <dlfcn.h>
#include <fcntl.h>
#include <stdarg.h>
#include <string.h>
#include <sys/stat.h>
#include <sys/time.h>
#include <sys/types.h>
#include <time.h>
#include <unistd.h>
#include <dirent.h>
#include <sys/file.h>
#include <sys/uio.h>

enum { K_CLOCK = 0, K_ENV = 1, K_FS = 2, K_CWD = 3, K_PID = 4, K_STDIO = 5, K_LOCK = 6, K_N = 8 };

/* per thread: a library call is bracketed on the calling thread; other threads' requests are theirs */
static __thread volatile unsigned long counts[K_N];
static __thread char last_path[256];

unsigned long *tzseam_counts(void) { return (unsigned long *)counts; }

/* optional callback before a file-system request is passed on: the simulator makes it a scheduling
 * point while a call through the library's default (real file system) reader is in progress */
static void (*volatile fs_hook)(int) = 0;
void tzseam_set_hook(void (*h)(int)) { fs_hook = h; }
#define FS_HOOK() do { void (*h_)(int) = fs_hook; if (h_) h_(K_FS); } while (0)
const char *tzseam_last_path(void) { return last_path; }

static void note_path(const char *p) {
    if (p) {
        strncpy(last_path, p, sizeof(last_path) - 1);
        last_path[sizeof(last_path) - 1] = 0;
    }
}

#define REAL(ret, name, ...) \
    static ret (*real)(__VA_ARGS__); \
    if (!real) real = (ret (*)(__VA_ARGS__))dlsym(RTLD_NEXT, #name);

int clock_gettime(clockid_t c, struct timespec *ts) {
    REAL(int, clock_gettime, clockid_t, struct timespec *)
    __sync_fetch_and_add(&counts[K_CLOCK], 1);
    return real(c, ts);
}

int gettimeofday(struct timeval *tv, void *tz) {
    REAL(int, gettimeofday, struct timeval *, void *)
    __sync_fetch_and_add(&counts[K_CLOCK], 1);
    return real(tv, tz);
}

time_t time(time_t *t) {
    REAL(time_t, time, time_t *)
    __sync_fetch_and_add(&counts[K_CLOCK], 1);
    return real(t);
}

char *getenv(const char *name) {
    REAL(char *, getenv, const char *)
    __sync_fetch_and_add(&counts[K_ENV], 1);
    note_path(name);
    return real(name);
}

char *secure_getenv(const char *name) {
    REAL(char *, secure_getenv, const char *)
    __sync_fetch_and_add(&counts[K_ENV], 1);
    note_path(name);
    return real(name);
}

int open(const char *path, int flags, ...) {
    REAL(int, open, const char *, int, ...)
    mode_t mode = 0;
    if (flags & (O_CREAT | O_TMPFILE)) { va_list ap; va_start(ap, flags); mode = va_arg(ap, mode_t); va_end(ap); }
    __sync_fetch_and_add(&counts[K_FS], 1);
    note_path(path);
    FS_HOOK();
    return real(path, flags, mode);
}

int open64(const char *path, int flags, ...) {
    REAL(int, open64, const char *, int, ...)
    mode_t mode = 0;
    if (flags & (O_CREAT | O_TMPFILE)) { va_list ap; va_start(ap, flags); mode = va_arg(ap, mode_t); va_end(ap); }
    __sync_fetch_and_add(&counts[K_FS], 1);
    note_path(path);
    FS_HOOK();
    return real(path, flags, mode);
}

int openat(int dirfd, const char *path, int flags, ...) {
    REAL(int, openat, int, const char *, int, ...)
    mode_t mode = 0;
    if (flags & (O_CREAT | O_TMPFILE)) { va_list ap; va_start(ap, flags); mode = va_arg(ap, mode_t); va_end(ap); }
    __sync_fetch_and_add(&counts[K_FS], 1);
    note_path(path);
    FS_HOOK();
    return real(dirfd, path, flags, mode);
}

int openat64(int dirfd, const char *path, int flags, ...) {
    REAL(int, openat64, int, const char *, int, ...)
    mode_t mode = 0;
    if (flags & (O_CREAT | O_TMPFILE)) { va_list ap; va_start(ap, flags); mode = va_arg(ap, mode_t); va_end(ap); }
    __sync_fetch_and_add(&counts[K_FS], 1);
    note_path(path);
    FS_HOOK();
    return real(dirfd, path, flags, mode);
}

int stat(const char *path, struct stat *st) {
    REAL(int, stat, const char *, struct stat *)
    __sync_fetch_and_add(&counts[K_FS], 1);
    note_path(path);
    FS_HOOK();
    return real(path, st);
}

int stat64(const char *path, struct stat64 *st) {
    REAL(int, stat64, const char *, struct stat64 *)
    __sync_fetch_and_add(&counts[K_FS], 1);
    note_path(path);
    FS_HOOK();
    return real(path, st);
}

int lstat(const char *path, struct stat *st) {
    REAL(int, lstat, const char *, struct stat *)
    __sync_fetch_and_add(&counts[K_FS], 1);
    note_path(path);
    FS_HOOK();
    return real(path, st);
}

int lstat64(const char *path, struct stat64 *st) {
    REAL(int, lstat64, const char *, struct stat64 *)
    __sync_fetch_and_add(&counts[K_FS], 1);
    note_path(path);
    FS_HOOK();
    return real(path, st);
}

int fstatat(int dirfd, const char *path, struct stat *st, int flags) {
    REAL(int, fstatat, int, const char *, struct stat *, int)
    __sync_fetch_and_add(&counts[K_FS], 1);
    note_path(path);
    FS_HOOK();
    return real(dirfd, path, st, flags);
}

int fstatat64(int dirfd, const char *path, struct stat64 *st, int flags) {
    REAL(int, fstatat64, int, const char *, struct stat64 *, int)
    __sync_fetch_and_add(&counts[K_FS], 1);
    note_path(path);
    FS_HOOK();
    return real(dirfd, path, st, flags);
}

struct statx;
int statx(int dirfd, const char *path, int flags, unsigned int mask, struct statx *buf) {
    REAL(int, statx, int, const char *, int, unsigned int, struct statx *)
    /* statx on an already open descriptor (empty path) is what reading a file does after open: not a new request */
    if (path && path[0]) {
        __sync_fetch_and_add(&counts[K_FS], 1);
        note_path(path);
        FS_HOOK();
    }
    return real(dirfd, path, flags, mask, buf);
}

ssize_t readlink(const char *path, char *buf, size_t n) {
    REAL(ssize_t, readlink, const char *, char *, size_t)
    __sync_fetch_and_add(&counts[K_FS], 1);
    note_path(path);
    FS_HOOK();
    return real(path, buf, n);
}

ssize_t readlinkat(int dirfd, const char *path, char *buf, size_t n) {
    REAL(ssize_t, readlinkat, int, const char *, char *, size_t)
    __sync_fetch_and_add(&counts[K_FS], 1);
    note_path(path);
    FS_HOOK();
    return real(dirfd, path, buf, n);
}

int access(const char *path, int mode) {
    REAL(int, access, const char *, int)
    __sync_fetch_and_add(&counts[K_FS], 1);
    note_path(path);
    FS_HOOK();
    return real(path, mode);
}

int faccessat(int dirfd, const char *path, int mode, int flags) {
    REAL(int, faccessat, int, const char *, int, int)
    __sync_fetch_and_add(&counts[K_FS], 1);
    note_path(path);
    FS_HOOK();
    return real(dirfd, path, mode, flags);
}

DIR *opendir(const char *path) {
    REAL(DIR *, opendir, const char *)
    __sync_fetch_and_add(&counts[K_FS], 1);
    note_path(path);
    FS_HOOK();
    return real(path);
}

char *getcwd(char *buf, size_t n) {
    REAL(char *, getcwd, char *, size_t)
    __sync_fetch_and_add(&counts[K_CWD], 1);
    return real(buf, n);
}

pid_t getpid(void) {
    REAL(pid_t, getpid, void)
    __sync_fetch_and_add(&counts[K_PID], 1);
    return real();
}

/* standard streams: a library call that writes to (or reads from) descriptors 0-2 touches process-global
 * state shared with every other thread (and can block on it) */
ssize_t write(int fd, const void *buf, size_t n) {
    REAL(ssize_t, write, int, const void *, size_t)
    if (fd >= 0 && fd <= 2) __sync_fetch_and_add(&counts[K_STDIO], 1);
    return real(fd, buf, n);
}

ssize_t writev(int fd, const struct iovec *iov, int cnt) {
    REAL(ssize_t, writev, int, const struct iovec *, int)
    if (fd >= 0 && fd <= 2) __sync_fetch_and_add(&counts[K_STDIO], 1);
    return real(fd, iov, cnt);
}

ssize_t read(int fd, void *buf, size_t n) {
    REAL(ssize_t, read, int, void *, size_t)
    if (fd >= 0 && fd <= 2) __sync_fetch_and_add(&counts[K_STDIO], 1);
    return real(fd, buf, n);
}

/* advisory locks are shared between all threads and processes that open the same file */
int flock(int fd, int op) {
    REAL(int, flock, int, int)
    __sync_fetch_and_add(&counts[K_LOCK], 1);
    return real(fd, op);
}

int lockf(int fd, int cmd, off_t len) {
    REAL(int, lockf, int, int, off_t)
    __sync_fetch_and_add(&counts[K_LOCK], 1);
    return real(fd, cmd, len);
}
