#!/usr/bin/env python3
"""Confirm sub-agent mutants in their scratch worktree, store them under /verif/seeded/, and run
the matching check against each (applied to /repo, reverted straight afterwards).
Usage: tools/seeded.py <PROP> <worktree> <outdir> [mN ...]"""
import glob
import json
import os
import shutil
import subprocess
import sys
import time

VERIF = os.path.dirname(os.path.dirname(os.path.abspath(__file__)))
REPO = "/repo"
OUTV = VERIF  # where seeded/ results are stored
if os.environ.get("SEED_SCRATCH"):
    # run against the scratch copies made by tools/scratch.sh (leaves /repo alone)
    VERIF = "/tmp/vscratch" + os.environ.get("SCRATCH_SUFFIX", "")
    REPO = "/tmp/rscratch" + os.environ.get("SCRATCH_SUFFIX", "")
    os.environ["TZSIM_REPO"] = REPO


def sh(argv, cwd=None, env=None, timeout=3600):
    e = dict(os.environ)
    e["CARGO_NET_OFFLINE"] = "true"
    if env:
        e.update(env)
    try:
        p = subprocess.run(argv, cwd=cwd, env=e, stdout=subprocess.PIPE, stderr=subprocess.STDOUT, text=True, timeout=timeout)
        return p.returncode, p.stdout
    except subprocess.TimeoutExpired as ex:
        return 124, (ex.stdout or "") if isinstance(ex.stdout, str) else "timeout"


def clean(wt):
    sh(["git", "checkout", "--", "."], cwd=wt)
    sh(["git", "clean", "-fdq", "tests"], cwd=wt)


def run_demo(wt, out, n):
    rs = os.path.join(out, f"{n}_demo.rs")
    shf = os.path.join(out, f"{n}_demo.sh")
    if os.path.exists(shf):
        rc, o = sh(["bash", shf], cwd=wt, env={"WT": wt, "OUT": out}, timeout=1200)
        return rc, o
    os.makedirs(os.path.join(wt, "tests"), exist_ok=True)
    shutil.copy(rs, os.path.join(wt, "tests", f"{n}_demo.rs"))
    rc, o = sh(["cargo", "test", "--offline", "--test", f"{n}_demo"], cwd=wt, timeout=1200)
    return rc, o


def main():
    prop, wt, out = sys.argv[1:4]
    only = sys.argv[4:]
    diffs = sorted(glob.glob(os.path.join(out, "m*.diff")))
    results = {}
    for d in diffs:
        n = os.path.basename(d)[:-5]
        if only and n not in only:
            continue
        meta = {"property": prop, "source": "independent sub-agent (given only the property text and a scratch worktree)", "name": n}
        clean(wt)
        rc, o = sh(["git", "apply", d], cwd=wt)
        if rc != 0:
            meta["error"] = "patch does not apply: " + o[-300:]
            results[n] = meta
            continue
        rc, o = sh(["cargo", "test", "--workspace", "--no-fail-fast", "--offline"], cwd=wt)
        meta["existing_tests_pass_with_change"] = rc == 0
        builds = {}
        for name, fl in (("core", ["--no-default-features"]), ("alloc", ["--no-default-features", "--features", "alloc"]), ("std", [])):
            rcb, ob = sh(["cargo", "build", "--offline"] + fl, cwd=wt)
            builds[name] = rcb == 0
        meta["builds_with_change"] = builds
        rc, o = run_demo(wt, out, n)
        meta["demo_fails_with_change"] = rc != 0
        clean(wt)
        rc, o = run_demo(wt, out, n)
        meta["demo_passes_without_change"] = rc == 0
        clean(wt)
        md = os.path.join(out, f"{n}.md")
        meta["needs"] = open(md).read() if os.path.exists(md) else ""
        # run my check against it
        st, o = sh(["git", "-C", REPO, "status", "--porcelain"])
        if o.strip():
            raise SystemExit(REPO + " is not clean")
        t0 = time.time()
        try:
            rc, o = sh(["git", "-C", REPO, "apply", d])
            if rc != 0:
                meta["check"] = {"error": "does not apply to /repo: " + o[-200:]}
            else:
                rc, o = sh([os.path.join(VERIF, "check"), prop, "quick"], cwd=VERIF, env={"TZSIM_BUDGET_SCALE": os.environ.get("SENS_SCALE", "0.25")})
                meta["check"] = {"cmd": f"TZSIM_BUDGET_SCALE={os.environ.get('SENS_SCALE', '0.25')} ./check {prop} quick", "exit": rc, "detected": rc == 1 and "VIOLATION property=" in o,
                                 "oracles": [l[:400] for l in o.splitlines() if l.startswith("violated oracle")][:4], "harness_errors": [l[:300] for l in o.splitlines() if l.startswith("HARNESS-ERROR")][:3], "wall_s": round(time.time() - t0, 1)}
        finally:
            (sh(["git", "-C", REPO, "checkout", "--", "."]), sh(["git", "-C", REPO, "clean", "-fdq", "src", "tests"]))
        dest = os.path.join(OUTV, "seeded", f"{prop}-{os.path.basename(out.rstrip('/')).replace('-out', '')}-{n}")
        os.makedirs(dest, exist_ok=True)
        shutil.copy(d, os.path.join(dest, "patch.diff"))
        for ext in ("_demo.rs", "_demo.sh", ".md"):
            src = os.path.join(out, n + ext)
            if os.path.exists(src):
                shutil.copy(src, os.path.join(dest, ("demo" + ext[5:]) if ext.startswith("_demo") else "notes.md"))
        meta["confirmed"] = bool(meta.get("demo_fails_with_change") and meta.get("demo_passes_without_change"))
        json.dump(meta, open(os.path.join(dest, "meta.json"), "w"), indent=1)
        results[n] = meta
        print(n, json.dumps({k: v for k, v in meta.items() if k not in ("needs",)})[:900], flush=True)
    sh([os.path.join(VERIF, "check"), "build"], cwd=VERIF)


if __name__ == "__main__":
    main()
