#!/usr/bin/env python3
"""False-alarm test: behaviour-preserving changes (written by an independent agent) must leave every
check silent. Usage: tools/benign.py <outdir with bN.diff/bN.md>  (runs in the scratch copies)."""
import glob
import json
import os
import shutil
import subprocess
import sys
import time

V = os.path.dirname(os.path.dirname(os.path.abspath(__file__)))
SFX = os.environ.get("SCRATCH_SUFFIX", "")
SV, SR = "/tmp/vscratch" + SFX, "/tmp/rscratch" + SFX


def sh(argv, cwd=None, env=None, timeout=3600):
    e = dict(os.environ)
    e["CARGO_NET_OFFLINE"] = "true"
    e["TZSIM_REPO"] = SR
    if env:
        e.update(env)
    p = subprocess.run(argv, cwd=cwd, env=e, stdout=subprocess.PIPE, stderr=subprocess.STDOUT, text=True, timeout=timeout)
    return p.returncode, p.stdout


def main():
    out = sys.argv[1] if len(sys.argv) > 1 else None
    only = sys.argv[2:]
    subprocess.run([os.path.join(V, "tools", "scratch.sh")], check=True, stdout=subprocess.DEVNULL)
    diffs = sorted(glob.glob(os.path.join(out, "b*.diff"))) if out else sorted(glob.glob(os.path.join(V, "benign", "*", "patch.diff")))
    for d in diffs:
        n = os.path.basename(d)[:-5] if out else os.path.basename(os.path.dirname(d))
        if only and n not in only:
            continue
        dest = os.path.join(V, "benign", n)
        os.makedirs(dest, exist_ok=True)
        if out:
            shutil.copy(d, os.path.join(dest, "patch.diff"))
            md = os.path.join(out, n + ".md")
            if os.path.exists(md):
                shutil.copy(md, os.path.join(dest, "notes.md"))
        (sh(["git", "-C", SR, "checkout", "--", "."]), sh(["git", "-C", SR, "clean", "-fdq", "src", "tests"]))
        rc, o = sh(["git", "-C", SR, "apply", os.path.join(dest, "patch.diff")])
        res = {"name": n, "applies": rc == 0, "checks": {}}
        if rc == 0:
            rc, o = sh(["cargo", "test", "--workspace", "--no-fail-fast", "--offline"], cwd=SR)
            res["existing_tests_pass"] = rc == 0
            for prop in ("C07", "C08", "C15", "C17", "C19", "C20"):
                t0 = time.time()
                rc, o = sh([os.path.join(SV, "check"), prop, "quick"], cwd=SV, env={"TZSIM_BUDGET_SCALE": os.environ.get("SENS_SCALE", "0.25")})
                res["checks"][prop] = {"exit": rc, "silent": rc == 0, "lines": [l[:400] for l in o.splitlines() if l.startswith(("violated oracle", "VIOLATION", "HARNESS-ERROR"))][:4], "wall_s": round(time.time() - t0, 1)}
                print(n, prop, rc, res["checks"][prop]["lines"][:1], flush=True)
        json.dump(res, open(os.path.join(dest, "result.json"), "w"), indent=1)
    (sh(["git", "-C", SR, "checkout", "--", "."]), sh(["git", "-C", SR, "clean", "-fdq", "src", "tests"]))


if __name__ == "__main__":
    main()
