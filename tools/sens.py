#!/usr/bin/env python3
"""Sensitivity driver: apply a deliberate, test-passing breakage to /repo, run one check,
revert. Usage: tools/sens.py [name ...]   (no name = all). Results -> sensitivity/results.json"""
import json
import os
import subprocess
import sys
import time

REPO = "/repo"
VERIF = os.path.dirname(os.path.dirname(os.path.abspath(__file__)))
RESDIR = VERIF
if os.environ.get("SENS_SCRATCH"):
    # run against the scratch copies made by tools/scratch.sh (leaves /repo alone)
    REPO = "/tmp/rscratch"
    VERIF = "/tmp/vscratch"
    os.environ["TZSIM_REPO"] = REPO
TZ = "src/timezone/mod.rs"
TF = "src/parse/tz_file.rs"
FD = "src/datetime/find.rs"
DM = "src/datetime/mod.rs"
RL = "src/timezone/rule.rs"
ST = "src/utils/system_time.rs"

M = []


def mut(name, prop, edits, note=""):
    M.append({"name": name, "prop": prop, "edits": edits, "note": note})


# ---------------- C20
mut("c20_desc_before_file", "C20", [(TZ, """        match self.read_tz_file(tz_string) {
            Ok(bytes) => Ok(parse_tz_file(&bytes)?),
            Err(_) => {
                let tz_string = tz_string.trim_matches(|c: char| c.is_ascii_whitespace());

                // TZ string extensions are not allowed
                let rule = parse_posix_tz(tz_string.as_bytes(), false)?;
""", """        match parse_posix_tz(tz_string.trim_matches(|c: char| c.is_ascii_whitespace()).as_bytes(), false) {
            Err(_) => Ok(parse_tz_file(&self.read_tz_file(tz_string)?)?),
            Ok(rule) => {
""")], "description tried before the file")
mut("c20_fallback_after_malformed", "C20", [(TZ, """        match self.read_tz_file(tz_string) {
            Ok(bytes) => Ok(parse_tz_file(&bytes)?),
            Err(_) => {""", """        match self.read_tz_file(tz_string).and_then(|bytes| Ok(parse_tz_file(&bytes)?)) {
            Ok(zone) => Ok(zone),
            Err(_) => {""")], "malformed file falls back to the description")
mut("c20_colon_fallback", "C20", [(TZ, """        if chars.next() == Some(':') {
            return Ok(parse_tz_file(&self.read_tz_file(chars.as_str())?)?);
        }
""", """        if chars.next() == Some(':') {
            if let Ok(bytes) = self.read_tz_file(chars.as_str()) {
                return Ok(parse_tz_file(&bytes)?);
            }
            return self.parse_posix_tz(chars.as_str());
        }
""")], "':' value falls back")
mut("c20_dirs_reversed", "C20", [(TZ, """            self.directories
                .iter()
                .find_map(""", """            self.directories
                .iter()
                .rev()
                .find_map(""")], "directories searched in reverse")
mut("c20_last_readable_wins", "C20", [(TZ, """                .find_map(|folder| read_file_fn(&format!("{folder}/{tz_string}")).ok())
""", """                .filter_map(|folder| read_file_fn(&format!("{folder}/{tz_string}")).ok())
                .last()
""")], "scan continues after first success")
mut("c20_localtime_in_dirs", "C20", [(TZ, """            return Ok(parse_tz_file(&(self.read_file_fn)("/etc/localtime").map_err(crate::Error::Io)?)?);""", """            if let Ok(bytes) = (self.read_file_fn)("/etc/localtime") {
                return Ok(parse_tz_file(&bytes)?);
            }
            return Ok(parse_tz_file(&self.read_tz_file(tz_string)?)?);""")], "localtime also searched in directories when /etc/localtime is unreadable")
mut("c20_extensions_in_fallback", "C20", [(TZ, "let rule = parse_posix_tz(tz_string.as_bytes(), false)?;", "let rule = parse_posix_tz(tz_string.as_bytes(), true)?;")], "extensions enabled in description fallback")
mut("c20_abs_also_in_dirs", "C20", [(TZ, """        if tz_string.starts_with('/') {
            Ok(read_file_fn(tz_string)?)
        } else {""", """        if tz_string.starts_with('/') && self.directories.len() < 3 {
            Ok(read_file_fn(tz_string)?)
        } else {""")], "absolute path joined under dirs when there are >= 3 directories")
mut("c20_trim_before_lookup", "C20", [(TZ, """        match self.read_tz_file(tz_string) {
            Ok(bytes) => Ok(parse_tz_file(&bytes)?),
            Err(_) => {
                let tz_string = tz_string.trim_matches(|c: char| c.is_ascii_whitespace());
""", """        let tz_string = tz_string.trim_matches(|c: char| c.is_ascii_whitespace());
        match self.read_tz_file(tz_string) {
            Ok(bytes) => Ok(parse_tz_file(&bytes)?),
            Err(_) => {
""")], "trimmed string used for the file lookup")
mut("c20_empty_err_is_io", "C20", [(TZ, """            return Err(TzStringError::Empty.into());""", """            return Err(crate::Error::Io("empty".into()));""")], "empty value refused with the wrong error class")
mut("c20_unicode_trim", "C20", [(TZ, "let tz_string = tz_string.trim_matches(|c: char| c.is_ascii_whitespace());\n\n                // TZ", "let tz_string = tz_string.trim();\n\n                // TZ")], "Unicode whitespace trimmed")

# ---------------- C15
mut("c15_static_lookup_cache", "C15", [(TZ, """    /// Find the local time type associated to the time zone at the specified Unix time in seconds
    pub fn find_local_time_type(&self, unix_time: i64) -> Result<&LocalTimeType, TzError> {
        self.as_ref().find_local_time_type(unix_time)
    }""", """    /// Find the local time type associated to the time zone at the specified Unix time in seconds
    pub fn find_local_time_type(&self, unix_time: i64) -> Result<&LocalTimeType, TzError> {
        #[cfg(feature = "std")]
        {
            static LAST: std::sync::Mutex<Option<(i64, usize)>> = std::sync::Mutex::new(None);
            let mut last = LAST.lock().unwrap();
            if let Some((t, i)) = *last {
                if t == unix_time && i < self.local_time_types.len() {
                    return Ok(&self.local_time_types[i]);
                }
            }
            let r = self.as_ref().find_local_time_type(unix_time)?;
            if let Some(i) = self.local_time_types.iter().position(|x| core::ptr::eq(x, r)) {
                *last = Some((unix_time, i));
            }
            return Ok(r);
        }
        #[cfg(not(feature = "std"))]
        self.as_ref().find_local_time_type(unix_time)
    }""")], "static last-lookup cache keyed by the instant only (TimeZone::find_local_time_type)")
mut("c15_parse_local_env", "C15", [(TZ, """        #[cfg(unix)]
        let local_time_zone = self.parse_posix_tz("localtime")?;""", """        #[cfg(all(unix, feature = "std"))]
        let local_time_zone = match std::env::var("TZ") {
            Ok(tz) if !tz.is_empty() => self.parse_posix_tz(&tz)?,
            _ => self.parse_posix_tz("localtime")?,
        };
        #[cfg(all(unix, not(feature = "std")))]
        let local_time_zone = self.parse_posix_tz("localtime")?;""")], "parse_local honours $TZ")
mut("c15_thread_local_file_cache", "C15", [(TZ, """    fn read_tz_file(&self, tz_string: &str) -> Result<Vec<u8>, crate::Error> {
        let read_file_fn = |path: &str| (self.read_file_fn)(path).map_err(crate::Error::Io);
""", """    fn read_tz_file(&self, tz_string: &str) -> Result<Vec<u8>, crate::Error> {
        #[cfg(feature = "std")]
        std::thread_local! {
            static CACHE: core::cell::RefCell<std::collections::HashMap<alloc::string::String, Vec<u8>>> = core::cell::RefCell::new(std::collections::HashMap::new());
        }
        #[cfg(feature = "std")]
        let read_file_fn = |path: &str| -> Result<Vec<u8>, crate::Error> {
            if let Some(b) = CACHE.with(|c| c.borrow().get(path).cloned()) {
                return Ok(b);
            }
            let b = (self.read_file_fn)(path).map_err(crate::Error::Io)?;
            CACHE.with(|c| c.borrow_mut().insert(path.into(), b.clone()));
            Ok(b)
        };
        #[cfg(not(feature = "std"))]
        let read_file_fn = |path: &str| (self.read_file_fn)(path).map_err(crate::Error::Io);
""")], "thread_local cache of file contents keyed by path, never invalidated")
mut("c15_now_memo", "C15", [(ST, """pub(crate) fn current_total_nanoseconds() -> i128 {
    match current_duration_since_epoch() {""", """pub(crate) fn current_total_nanoseconds() -> i128 {
    static LAST: std::sync::Mutex<Option<(i64, i128)>> = std::sync::Mutex::new(None);
    let secs = current_unix_time();
    let mut last = LAST.lock().unwrap();
    if let Some((s, n)) = *last {
        if s == secs {
            return n;
        }
    }
    let n = current_total_nanoseconds_uncached();
    *last = Some((secs, n));
    n
}

fn current_total_nanoseconds_uncached() -> i128 {
    match current_duration_since_epoch() {""")], "now() memoised per second")
mut("c15_atomic_racy_cache", "C15", [(TZ, """    /// Find the local time type associated to the time zone at the specified Unix time in seconds
    pub fn find_local_time_type(&self, unix_time: i64) -> Result<&LocalTimeType, TzError> {
        self.as_ref().find_local_time_type(unix_time)
    }""", """    /// Find the local time type associated to the time zone at the specified Unix time in seconds
    pub fn find_local_time_type(&self, unix_time: i64) -> Result<&LocalTimeType, TzError> {
        #[cfg(feature = "std")]
        {
            use core::sync::atomic::{AtomicI64, AtomicUsize, Ordering};
            static KEY_T: AtomicI64 = AtomicI64::new(i64::MIN);
            static KEY_Z: AtomicUsize = AtomicUsize::new(0);
            static VAL: AtomicUsize = AtomicUsize::new(0);
            let zid = self.transitions.as_ptr() as usize ^ self.local_time_types.as_ptr() as usize;
            if KEY_T.load(Ordering::Relaxed) == unix_time && KEY_Z.load(Ordering::Relaxed) == zid {
                let i = VAL.load(Ordering::Relaxed);
                if i < self.local_time_types.len() {
                    return Ok(&self.local_time_types[i]);
                }
            }
            let r = self.as_ref().find_local_time_type(unix_time)?;
            if let Some(i) = self.local_time_types.iter().position(|x| core::ptr::eq(x, r)) {
                KEY_T.store(unix_time, Ordering::Relaxed);
                KEY_Z.store(zid, Ordering::Relaxed);
                VAL.store(i, Ordering::Relaxed);
            }
            return Ok(r);
        }
        #[cfg(not(feature = "std"))]
        self.as_ref().find_local_time_type(unix_time)
    }""")], "three-atomics cache, key written before value (wrong only under a racy interleaving)")
mut("c15_cell_counter", "C15", [(TZ, """pub struct TimeZoneSettings<'a> {
    /// Possible system timezone directories
    directories: &'a [&'a str],""", """pub struct TimeZoneSettings<'a> {
    /// Number of lookups
    hits: core::cell::Cell<u32>,
    /// Possible system timezone directories
    directories: &'a [&'a str],"""), (TZ, "TimeZoneSettings { directories: Self::DEFAULT_DIRECTORIES, read_file_fn: Self::DEFAULT_READ_FILE_FN }", "TimeZoneSettings { hits: core::cell::Cell::new(0), directories: Self::DEFAULT_DIRECTORIES, read_file_fn: Self::DEFAULT_READ_FILE_FN }"), (TZ, "        Self { directories, read_file_fn }", "        Self { hits: core::cell::Cell::new(0), directories, read_file_fn }")], "Cell inside a public type (loses Sync)")

mut("c15_env_probe", "C15", [(TZ, """    pub fn parse_posix_tz(&self, tz_string: &str) -> Result<TimeZone, crate::Error> {
        if tz_string.is_empty() {""", """    pub fn parse_posix_tz(&self, tz_string: &str) -> Result<TimeZone, crate::Error> {
        #[cfg(feature = "std")]
        if std::env::var_os("TZ_RS_TRACE").is_some() {
            std::eprintln!("tz-rs: resolving {tz_string:?}");
        }
        if tz_string.is_empty() {""")], "an environment variable is consulted on every resolution (its value never matters in the runs)")
mut("c15_clock_in_find", "C15", [(DM, """        let mut found_date_time_list = FoundDateTimeList::default();
        find_date_time(&mut found_date_time_list, year,""", """        let mut found_date_time_list = FoundDateTimeList::default();
        #[cfg(feature = "std")]
        {
            // "most searches are about the present": remember whether the searched year is the current one
            let this_year = std::time::SystemTime::now().duration_since(std::time::UNIX_EPOCH).map(|d| 1970 + (d.as_secs() / 31_556_952) as i32).unwrap_or(1970);
            if year == this_year && month == 0 {
                return Ok(found_date_time_list);
            }
        }
        find_date_time(&mut found_date_time_list, year,""")], "the allocating search reads the real clock (result unaffected for valid months)")
mut("c20_exists_probe", "C20", [(TZ, """            self.directories
                .iter()
                .find_map(""", """            #[cfg(feature = "std")]
            let _ = std::path::Path::new("/usr/share/zoneinfo").exists();
            self.directories
                .iter()
                .find_map(""")], "the real file system is probed beside the injected reader")
mut("c15_arc_mutex_field", "C15", [(TZ, """    /// Extra transition rule applicable after the last transition
    extra_rule: Option<TransitionRule>,
}

#[cfg(feature = "alloc")]
impl TimeZone {""", """    /// Extra transition rule applicable after the last transition
    extra_rule: Option<TransitionRule>,
    /// Last lookup (shared by clones)
    memo: Memo,
}

/// Last lookup of a zone
#[cfg(feature = "alloc")]
#[derive(Debug, Clone, Default)]
struct Memo(alloc::sync::Arc<MemoCell>);

#[cfg(feature = "alloc")]
#[derive(Debug, Default)]
struct MemoCell {
    time: core::sync::atomic::AtomicI64,
    index: core::sync::atomic::AtomicUsize,
}

#[cfg(feature = "alloc")]
impl PartialEq for Memo {
    fn eq(&self, _: &Self) -> bool {
        true
    }
}

#[cfg(feature = "alloc")]
impl Eq for Memo {}

#[cfg(feature = "alloc")]
impl TimeZone {"""), (TZ, "        Ok(Self { transitions, local_time_types, leap_seconds, extra_rule })", "        Ok(Self { transitions, local_time_types, leap_seconds, extra_rule, memo: Memo::default() })"), (TZ, "        Self { transitions: Vec::new(), local_time_types: vec![LocalTimeType::utc()], leap_seconds: Vec::new(), extra_rule: None }", "        Self { transitions: Vec::new(), local_time_types: vec![LocalTimeType::utc()], leap_seconds: Vec::new(), extra_rule: None, memo: Memo::default() }"), (TZ, "        Ok(Self { transitions: Vec::new(), local_time_types: vec![LocalTimeType::with_ut_offset(ut_offset)?], leap_seconds: Vec::new(), extra_rule: None })", "        Ok(Self { transitions: Vec::new(), local_time_types: vec![LocalTimeType::with_ut_offset(ut_offset)?], leap_seconds: Vec::new(), extra_rule: None, memo: Memo::default() })"), (TZ, """    pub fn find_local_time_type(&self, unix_time: i64) -> Result<&LocalTimeType, TzError> {
        self.as_ref().find_local_time_type(unix_time)
    }""", """    pub fn find_local_time_type(&self, unix_time: i64) -> Result<&LocalTimeType, TzError> {
        use core::sync::atomic::Ordering;
        let r = self.as_ref().find_local_time_type(unix_time)?;
        // statistics only: remember the last answer inside the zone (behind an Arc, so the zone stays Send + Sync)
        self.memo.0.time.store(unix_time, Ordering::Relaxed);
        self.memo.0.index.store(self.local_time_types.iter().position(|x| core::ptr::eq(x, r)).unwrap_or(usize::MAX), Ordering::Relaxed);
        Ok(r)
    }""")], "hidden mutable state behind an Arc inside TimeZone, written by a &self method (results unaffected)")

# ---------------- C07
mut("c07_unchecked_add", "C07", [(DM, """        let unix_time_with_offset = match unix_time.checked_add(local_time_type.ut_offset() as i64) {
            Some(unix_time_with_offset) => unix_time_with_offset,
            None => return Err(TzError::OutOfRange),
        };""", """        let unix_time_with_offset = unix_time + local_time_type.ut_offset() as i64;""")], "checked_add -> + in from_timespec_and_local")
mut("c07_year_guard_removed", "C07", [(RL, """        if !(i32::MIN + 2 <= current_year && current_year <= i32::MAX - 2) {
            return Err(TzError::OutOfRange);
        }
""", "")], "year guard removed in AlternateTime::find_local_time_type")
mut("c07_capacity_before_read", "C07", [(TF, """        Version::V2 | Version::V3 => {
            // Skip v1 data block
            read_data_blocks::<4>(&mut cursor, &header)?;

            let header = parse_header(&mut cursor)?;""", """        Version::V2 | Version::V3 => {
            // Skip v1 data block
            read_data_blocks::<4>(&mut cursor, &header)?;

            let header = parse_header(&mut cursor)?;
            let mut scratch: Vec<Transition> = Vec::with_capacity(header.transition_count);
            scratch.clear();""")], "Vec::with_capacity(header count) before the block was read")
mut("c07_desig_no_bound", "C07", [(TF, """            if char_index >= header.char_count {
                return Err(TzError::TzFile(TzFileError::InvalidTimeZoneDesignationCharIndex));
            }
""", "")], "designation slice without the index test")
mut("c07_leap_minus_one", "C07", [(TZ, """        if unix_leap_time == i64::MIN {
            return Err(TzError::OutOfRange);
        }
""", "")], "unix_leap_time - 1 without the i64::MIN guard")
mut("c07_system_time_plain", "C07", [(ST, "Err(duration) => 0i128.saturating_sub_unsigned(duration.as_nanos()),", "Err(duration) => -(duration.as_nanos() as i128) - (i128::MAX - 18_446_744_073_709_551_615_999_999_999) * ((duration.as_secs() == u64::MAX) as i128) * 2,")], "overflow in the clock conversion only at the extreme pre-epoch reading")
mut("c07_find_year_guard", "C07", [(FD, """            if !(i32::MIN + 2..=i32::MAX - 2).contains(&year) {
                return Err(TzError::OutOfRange);
            }
""", "")], "year guard removed in find")

# ---------------- C08
mut("c08_isut_isstd_swapped", "C08", [(TF, """        std_walls: read_exact(cursor, header.std_wall_count)?,
        ut_locals: read_exact(cursor, header.ut_local_count)?,""", """        ut_locals: read_exact(cursor, header.ut_local_count)?,
        std_walls: read_exact(cursor, header.std_wall_count)?,""")], "indicator blocks read in the wrong order")
mut("c08_header_counts_swapped", "C08", [(TF, """    let leap_count = u32::from_be_bytes(*read_chunk_exact(cursor)?);
    let transition_count = u32::from_be_bytes(*read_chunk_exact(cursor)?);""", """    let transition_count = u32::from_be_bytes(*read_chunk_exact(cursor)?);
    let leap_count = u32::from_be_bytes(*read_chunk_exact(cursor)?);""")], "leapcnt/timecnt read in the wrong order")
mut("c08_desig_plus_one", "C08", [(TF, "let time_zone_designation = &self.time_zone_designations[char_index..char_index + position];", "let time_zone_designation = &self.time_zone_designations[char_index..char_index + position];\n                    let time_zone_designation = if char_index > 0 && self.time_zone_designations[char_index - 1] != 0 { &self.time_zone_designations[char_index - 1..char_index + position] } else { time_zone_designation };")], "designation starting in the middle of another string is extended to the left")
mut("c08_dst_flag_lenient", "C08", [(TF, """                1 => true,
                _ => return Err(TzError::TzFile(TzFileError::InvalidDstIndicator)),""", """                _ => true,""")], "DST flag != 0 accepted")
mut("c08_v1_trailing_ok", "C08", [(TF, """            if !cursor.is_empty() {
                return Err(TzError::TzFile(TzFileError::RemainingDataV1));
            }
""", "")], "trailing bytes after a v1 body accepted")
mut("c08_trans_cap_65535", "C08", [(TF, "    if !(type_count != 0 && char_count != 0 &&", "    if transition_count > 0xFFFF {\n        return Err(TzFileError::InvalidHeader);\n    }\n    if !(type_count != 0 && char_count != 0 &&")], "more than 65535 transitions refused as hostile")
mut("c08_char_count_u16", "C08", [(TF, "        char_count: char_count as usize,", "        char_count: char_count as u16 as usize,")], "character count kept in 16 bits")
mut("c08_leap_cap", "C08", [(TF, "        leap_count: leap_count as usize,", "        leap_count: (leap_count as usize).min(50_000),")], "leap record count capped")
mut("c08_signed_time_plain", "C08", [("src/parse/tz_string.rs", """        if use_string_extensions {
            parse_rule_time_extended(cursor)?
        } else {
            parse_rule_time(cursor)?
        }""", """        {
            let time = parse_rule_time_extended(cursor)?;
            if !use_string_extensions && !(0..=24 * 3600 + 59 * 60 + 59).contains(&time) {
                return Err(TzStringError::InvalidDayTimeHour.into());
            }
            time
        }""")], "explicitly signed rule time accepted in a version-2 footer", )
mut("c08_ext_for_v2", "C08", [(TF, "parse_footer(footer, header.version == Version::V3)", "parse_footer(footer, header.version != Version::V1)")], "footer extensions honoured for version 2")
mut("c08_pair_check_dropped", "C08", [(TF, "if !matches!((std_wall, ut_local), (0, 0) | (1, 0) | (1, 1)) {", "if !matches!((std_wall, ut_local), (0, 0) | (1, 0) | (1, 1) | (0, 1)) {")], "indicator pair (0,1) accepted")
mut("c08_footer_nl_unchecked", "C08", [(TF, "if !(footer.len() >= 2 && footer.starts_with('\\n') && footer.ends_with('\\n')) {", "if !(footer.len() >= 2 && footer.starts_with('\\n')) {")], "missing final newline accepted")
mut("c08_v1_block_for_small_v2", "C08", [(TF, """            let header = parse_header(&mut cursor)?;
            let data_blocks = read_data_blocks::<8>(&mut cursor, &header)?;
            let footer = cursor;

            Ok(data_blocks.parse(&header, Some(footer))?)""", """            let header2 = parse_header(&mut cursor)?;
            let data_blocks = read_data_blocks::<8>(&mut cursor, &header2)?;
            let footer = cursor;
            if header2.transition_count == header.transition_count && header2.leap_count == 0 && header.leap_count == 0 && header2.type_count == header.type_count && header2.char_count == header.char_count {
                // identical shape: reuse the compact 32-bit block
                let mut c1 = &bytes[44..];
                let b1 = read_data_blocks::<4>(&mut c1, &header)?;
                return Ok(b1.parse(&header2, Some(footer))?);
            }

            Ok(data_blocks.parse(&header2, Some(footer))?)""")], "32-bit block used for v2 files when the two blocks have the same shape")
mut("c08_revert_fix", "C08", [(TF, "if !(footer.len() >= 2 && footer.starts_with('\\n') && footer.ends_with('\\n')) {", "if !(footer.starts_with('\\n') && footer.ends_with('\\n')) {")], "the repaired defect comes back")

# ---------------- C17
mut("c17_count_only_written", "C17", [(FD, """            *x = Some(found_date_time);
            self.current_index += 1
        }

        self.count += 1;""", """            *x = Some(found_date_time);
            self.current_index += 1;
            self.count += 1;
        }""")], "count incremented only when written")
mut("c17_tail_cleared", "C17", [(FD, """    pub fn new(buf: &'a mut [Option<FoundDateTimeKind>]) -> Self {
        Self { buf, current_index: 0, count: 0 }""", """    pub fn new(buf: &'a mut [Option<FoundDateTimeKind>]) -> Self {
        buf.iter_mut().for_each(|x| *x = None);
        Self { buf, current_index: 0, count: 0 }""")], "buffer cleared before the search")
mut("c17_exhaustive_le", "C17", [(FD, "        self.current_index == self.count", "        self.current_index <= self.count")], "is_exhaustive always true")
mut("c17_unique_whole_buf", "C17", [(FD, """    pub fn unique(&self) -> Option<DateTime> {
        let mut iter = self.data().iter().flatten();""", """    pub fn unique(&self) -> Option<DateTime> {
        let mut iter = self.buf.iter().flatten();""")], "unique() looks at stale slots")
mut("c17_latest_whole_buf", "C17", [(FD, "match *self.data().iter().flatten().next_back()? {", "match *self.buf.iter().flatten().next_back()? {")], "latest() looks at stale slots")
mut("c17_overwrite_last", "C17", [(FD, """        if let Some(x) = self.buf.get_mut(self.current_index) {
            *x = Some(found_date_time);
            self.current_index += 1
        }""", """        if let Some(x) = self.buf.get_mut(self.current_index) {
            *x = Some(found_date_time);
            self.current_index += 1
        } else if let Some(x) = self.buf.last_mut() {
            *x = Some(found_date_time);
        }""")], "when full, the last slot is overwritten with the newest result")

# ---------------- C19
mut("c19_std_fast_path", "C19", [(TZ, """                if unix_leap_time >= last_transition.unix_leap_time {""", """                #[cfg(feature = "std")]
                let at_or_after_last = unix_leap_time > last_transition.unix_leap_time;
                #[cfg(not(feature = "std"))]
                let at_or_after_last = unix_leap_time >= last_transition.unix_leap_time;
                if at_or_after_last {""")], "cfg(std) path with a different boundary")
mut("c19_alloc_in_findn", "C19", [(DM, """        let mut found_date_time_list = FoundDateTimeListRefMut::new(buf);
        find_date_time(&mut found_date_time_list, year, month, month_day, hour, minute, second, nanoseconds, time_zone_ref)?;
        Ok(found_date_time_list)""", """        #[cfg(feature = "alloc")]
        {
            let all = Self::find(year, month, month_day, hour, minute, second, nanoseconds, time_zone_ref)?.into_inner();
            let mut found_date_time_list = FoundDateTimeListRefMut::new(buf);
            for x in all {
                find::DateTimeList::push(&mut found_date_time_list, x);
            }
            return Ok(found_date_time_list);
        }
        #[cfg(not(feature = "alloc"))]
        {
            let mut found_date_time_list = FoundDateTimeListRefMut::new(buf);
            find_date_time(&mut found_date_time_list, year, month, month_day, hour, minute, second, nanoseconds, time_zone_ref)?;
            Ok(found_date_time_list)
        }""")], "find_n collects into a Vec when alloc is on")
mut("c19_core_build_break", "C19", [(TZ, """    const fn check_inputs(&self) -> Result<(), TzError> {
        use crate::constants::*;
""", """    const fn check_inputs(&self) -> Result<(), TzError> {
        use crate::constants::*;
        let _probe: Option<TzStringError> = None;
""")], "alloc-only type named in a core path (no-feature build fails)")


def sh(argv, cwd=None, env=None, timeout=None):
    e = dict(os.environ)
    e["CARGO_NET_OFFLINE"] = "true"
    if env:
        e.update(env)
    p = subprocess.run(argv, cwd=cwd, env=e, stdout=subprocess.PIPE, stderr=subprocess.STDOUT, text=True, timeout=timeout)
    return p.returncode, p.stdout


def apply(m):
    for (f, old, new) in m["edits"]:
        path = os.path.join(REPO, f)
        s = open(path).read()
        if s.count(old) != 1:
            raise SystemExit(f"{m['name']}: pattern occurs {s.count(old)} times in {f}")
        open(path, "w").write(s.replace(old, new))


def revert():
    sh(["git", "-C", REPO, "checkout", "--", "."])


def main():
    names = sys.argv[1:]
    todo = [m for m in M if not names or m["name"] in names or m["prop"] in names]
    results = {}
    respath = os.path.join(RESDIR, "sensitivity", "results.json")
    os.makedirs(os.path.dirname(respath), exist_ok=True)
    if os.path.exists(respath):
        results = json.load(open(respath))
    st, out = sh(["git", "-C", REPO, "status", "--porcelain"])
    if out.strip():
        raise SystemExit("/repo is not clean")
    for m in todo:
        t0 = time.time()
        try:
            apply(m)
            rc, out = sh(["cargo", "test", "--workspace", "--no-fail-fast", "--offline"], cwd=REPO, timeout=600)
            tests_pass = rc == 0
            rc, out = sh([os.path.join(VERIF, "check"), m["prop"], "quick"], cwd=VERIF, env={"TZSIM_BUDGET_SCALE": os.environ.get("SENS_SCALE", "0.25")}, timeout=3600)
            viol = [l for l in out.splitlines() if l.startswith("VIOLATION")]
            orc = [l for l in out.splitlines() if l.startswith("violated oracle")]
            results[m["name"]] = {"property": m["prop"], "what": m["note"], "existing_tests_pass": tests_pass, "check_exit": rc, "detected": rc == 1 and bool(viol), "first_oracle": (orc[0][:300] if orc else ""), "harness_errors": [l for l in out.splitlines() if l.startswith("HARNESS-ERROR")][:3], "wall_s": round(time.time() - t0, 1)}
            print(m["name"], json.dumps(results[m["name"]])[:600], flush=True)
        finally:
            revert()
        json.dump(results, open(respath, "w"), indent=1, sort_keys=True)
    # leave the harness built against the clean tree again
    sh([os.path.join(VERIF, "check"), "build"], cwd=VERIF)


if __name__ == "__main__":
    main()
