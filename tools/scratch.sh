#!/bin/bash
# Make (or refresh) scratch copies of /verif and /repo so that deliberate breakages can be tried
# without touching /repo while a long run is using it:
#   /tmp/rscratch$SFX  = git worktree of /repo HEAD
#   /tmp/vscratch$SFX  = copy of /verif (no build output), with every `path = "/repo"` rewritten
set -e
SFX="${SCRATCH_SUFFIX:-}"
if [ ! -d /tmp/rscratch$SFX ]; then git -C /repo worktree add -q --detach /tmp/rscratch$SFX HEAD; fi
git -C /tmp/rscratch$SFX checkout -q --detach "$(git -C /repo rev-parse HEAD)"
git -C /tmp/rscratch$SFX checkout -- . && git -C /tmp/rscratch$SFX clean -fdqx -e target -e Cargo.lock
mkdir -p /tmp/vscratch$SFX
rsync -a --delete --exclude target --exclude replays --exclude .git --exclude evidence /verif/ /tmp/vscratch$SFX/
for f in /tmp/vscratch$SFX/*/Cargo.toml; do sed -i "s|path = \"/repo\"|path = \"/tmp/rscratch$SFX\"|" "$f"; done
echo "scratch ready: TZSIM_REPO=/tmp/rscratch$SFX /tmp/vscratch$SFX/check ..."
