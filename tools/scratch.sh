#!/bin/bash
# Make (or refresh) scratch copies of /verif and /repo so that deliberate breakages can be tried
# without touching /repo while a long run is using it:
#   /tmp/rscratch  = git worktree of /repo HEAD
#   /tmp/vscratch  = copy of /verif (no build output), with every `path = "/repo"` rewritten
set -e
if [ ! -d /tmp/rscratch ]; then git -C /repo worktree add -q --detach /tmp/rscratch HEAD; fi
git -C /tmp/rscratch checkout -q --detach "$(git -C /repo rev-parse HEAD)"
git -C /tmp/rscratch checkout -- . && git -C /tmp/rscratch clean -fdqx -e target -e Cargo.lock
mkdir -p /tmp/vscratch
rsync -a --delete --exclude target --exclude replays --exclude .git --exclude evidence /verif/ /tmp/vscratch/
for f in /tmp/vscratch/*/Cargo.toml; do sed -i 's|path = "/repo"|path = "/tmp/rscratch"|' "$f"; done
echo "scratch ready: TZSIM_REPO=/tmp/rscratch /tmp/vscratch/check ..."
