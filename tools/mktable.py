#!/usr/bin/env python3
"""Regenerate DESIGN.md section 12 from seeded/*/meta.json and sensitivity/results.json."""
import glob
import json
import os
import re

V = os.path.dirname(os.path.dirname(os.path.abspath(__file__)))
rows = []
for m in sorted(glob.glob(os.path.join(V, "seeded", "*", "meta.json"))):
    d = json.load(open(m))
    name = os.path.basename(os.path.dirname(m))
    needs = d.get("needs", "").strip().splitlines()
    first = next((l.strip("# *").strip() for l in needs if l.strip() and not l.startswith("#")), "") or (needs[0].strip("# ") if needs else "")
    chk = d.get("check", {})
    orc = "; ".join(sorted({re.sub(r"^violated oracle (\S+) \(([^)]*)\).*", r"\1 (\2)", o) for o in chk.get("oracles", [])}))
    rows.append((d["property"], "seeded/" + name, first[:150], "yes" if d.get("existing_tests_pass_with_change") else "NO", "**caught**" if chk.get("detected") else "MISSED", orc))
res = json.load(open(os.path.join(V, "sensitivity", "results.json")))
for k, d in sorted(res.items()):
    orc = re.sub(r"^violated oracle (\S+) \(([^)]*)\).*", r"\1 (\2)", d.get("first_oracle", ""))
    rows.append((d["property"], "sens:" + k, d["what"], "yes" if d.get("existing_tests_pass") else "no", "**caught**" if d.get("detected") else "MISSED", orc))
rows.sort()
out = ["## 12. Which checks catch which breakages\n",
       "Two sources. `seeded/<id>` = changes written by independent sub-agents that were given only the property",
       "text and a scratch worktree (nothing from /verif); each was confirmed here (compiles, existing 42 tests pass,",
       "the agent's own demonstration fails with the change and passes without it) before being kept under",
       "`/verif/seeded/<id>/` (patch.diff, demo, notes.md, meta.json). `sens:<name>` = the hand-written list of",
       "`tools/sens.py` (the mutants sections 5.x said each check must catch); those marked *tests: no* also fail the",
       "existing suite and are listed only for completeness. Every run was `TZSIM_BUDGET_SCALE=0.25 ./check <ID> quick`",
       "(a quarter of the quick budget) with the change applied to /repo and reverted straight afterwards.\n",
       "| property | change | what it does / needs | tests pass | result | oracle that fired |", "|---|---|---|---|---|---|"]
for r in rows:
    out.append("| " + " | ".join(x.replace("|", "/") for x in r) + " |")
caught = sum(1 for r in rows if "caught" in r[4])
out.append(f"\n{caught} of {len(rows)} caught. Misses that led to changes of the machinery (all caught now):")
out.append("""
* `seeded/C15-c15-m3` (torn two-atomics memo inside `now()`, wrong only when two threads are inside `now()` at once):
  invisible to tier A by construction; the Miri tier had no clock-driven calls. Added the *now* workload (constant
  simulated reading through the hook, zones whose local dates differ) — found in 16 of 16 Miri seeds.
* `seeded/C20-c20-m3` (process-wide `AtomicUsize` directory hint): the oracle fired 1 199 times in 3 000 scenarios but no
  replay reproduced, because the minimiser had been shrinking inside a process whose hint was already polluted. Led to
  fresh-process confirmation, child-evaluated minimisation and the `prelude` mechanism (section 11).
* `seeded/C07-c07-m1` (plain `-` in the leap conversion): first surfaced as a *harness* panic because the generator's own
  validity filter called the panicking constructor; then too rare (1 in 300 k). Generator calls into tz-rs are now
  unwind-caught and the zone generator places extreme last transitions next to leap tables.
* `seeded/C07-c07-m2` (week 0 accepted → `unreachable!()`): no generator produced out-of-range rule days. Added
  out-of-range `Mm.w.d`/`Jn`/`n` to the footer-rule generator, the description generator and the constructor workload.
* `seeded/C07-c07-m4` in the sweeps (allocation refused → abort of a sweep worker): sweep breadcrumbs now name the work
  item and sub-index, `--emit-crumb` regenerates the scenario, and the allocation cap is active in replay too.
* `sens:c15_parse_local_env` (`parse_local` honouring `$TZ`): the C15 workload resolved the value `"localtime"` but never
  called `parse_local()`. Added `ResolveLocal` operations.
""")
s = open(os.path.join(V, "DESIGN.md")).read()
i = s.find("## 12. Which checks catch which breakages")
if i >= 0:
    s = s[:i]
s = s.rstrip("\n") + "\n\n" + "\n".join(out) + "\n"
open(os.path.join(V, "DESIGN.md"), "w").write(s)
print(f"{caught}/{len(rows)}")
