#!/usr/bin/env python3
"""Regenerate DESIGN.md section 12 from seeded/*/meta.json and sensitivity/results.json."""
import glob
import json
import os
import re

V = os.path.dirname(os.path.dirname(os.path.abspath(__file__)))
rows = []
for m in sorted(glob.glob(os.path.join(V, "seeded", "*", "meta.json"))):
    d = json.load(open(m))
    name = os.path.basename(os.path.dirname(m))
    needs = d.get("needs", "").strip().splitlines()
    first = next((l.strip("# *").strip() for l in needs if l.strip() and not l.startswith("#")), "") or (needs[0].strip("# ") if needs else "")
    chk = d.get("check", {})
    orc = "; ".join(sorted({re.sub(r"^violated oracle (\S+) \(([^)]*)\).*", r"\1 (\2)", o) for o in chk.get("oracles", [])}))
    rows.append((d["property"], "seeded/" + name, first[:150], "yes" if d.get("existing_tests_pass_with_change") else "NO", "**caught**" if chk.get("detected") else "MISSED", orc))
res = json.load(open(os.path.join(V, "sensitivity", "results.json")))
for k, d in sorted(res.items()):
    orc = re.sub(r"^violated oracle (\S+) \(([^)]*)\).*", r"\1 (\2)", d.get("first_oracle", ""))
    rows.append((d["property"], "sens:" + k, d["what"], "yes" if d.get("existing_tests_pass") else "no", "**caught**" if d.get("detected") else "MISSED", orc))
rows.sort()
out = ["## 12. Which checks catch which breakages\n",
       "Two sources. `seeded/<id>` = changes written by independent sub-agents that were given only the property",
       "text and a scratch worktree (nothing from /verif); each was confirmed here (compiles, existing 42 tests pass,",
       "the agent's own demonstration fails with the change and passes without it) before being kept under",
       "`/verif/seeded/<id>/` (patch.diff, demo, notes.md, meta.json). `sens:<name>` = the hand-written list of",
       "`tools/sens.py` (the mutants sections 5.x said each check must catch); those marked *tests: no* also fail the",
       "existing suite and are listed only for completeness. Every run was `TZSIM_BUDGET_SCALE=0.25 ./check <ID> quick`",
       "(a quarter of the quick budget) with the change applied to /repo and reverted straight afterwards.\n",
       "| property | change | what it does / needs | tests pass | result | oracle that fired |", "|---|---|---|---|---|---|"]
for r in rows:
    out.append("| " + " | ".join(x.replace("|", "/") for x in r) + " |")
caught = sum(1 for r in rows if "caught" in r[4])
out.append(f"\n{caught} of {len(rows)} caught. Misses that led to changes of the machinery (all caught now):")
out.append("""
* `seeded/C15-c15-m3` (torn two-atomics memo inside `now()`, wrong only when two threads are inside `now()` at once):
  invisible to tier A by construction; the Miri tier had no clock-driven calls. Added the *now* workload (constant
  simulated reading through the hook, zones whose local dates differ) — found in 16 of 16 Miri seeds.
* `seeded/C20-c20-m3` (process-wide `AtomicUsize` directory hint): the oracle fired 1 199 times in 3 000 scenarios but no
  replay reproduced, because the minimiser had been shrinking inside a process whose hint was already polluted. Led to
  fresh-process confirmation, child-evaluated minimisation and the `prelude` mechanism (section 11).
* `seeded/C07-c07-m1` (plain `-` in the leap conversion): first surfaced as a *harness* panic because the generator's own
  validity filter called the panicking constructor; then too rare (1 in 300 k). Generator calls into tz-rs are now
  unwind-caught and the zone generator places extreme last transitions next to leap tables.
* `seeded/C07-c07-m2` (week 0 accepted → `unreachable!()`): no generator produced out-of-range rule days. Added
  out-of-range `Mm.w.d`/`Jn`/`n` to the footer-rule generator, the description generator and the constructor workload.
* `seeded/C07-c07-m4` in the sweeps (allocation refused → abort of a sweep worker): sweep breadcrumbs now name the work
  item and sub-index, `--emit-crumb` regenerates the scenario, and the allocation cap is active in replay too.
* `sens:c15_parse_local_env` (`parse_local` honouring `$TZ`): the C15 workload resolved the value `"localtime"` but never
  called `parse_local()`. Added `ResolveLocal` operations.

Second round (agents were told which kinds had already been caught and asked for different ones):

* `seeded/C20-r2c20-m1` (scan stops when the reader's error downcasts to an `io::Error` of kind PermissionDenied) was caught only
  because the read seam had just been changed to hand back real `std::io::Error::from_raw_os_error` payloads instead of an opaque
  error type - kept as a design rule: the seam returns what `std::fs::read` would.
* `seeded/C20-r2c20-m3` (`from_posix_tz` alone honours `$TZDIR`) and `seeded/C15-r2c15-m3` (fallback to a path relative to the
  *current working directory*, process-global state without any syntactic footprint): invisible through the injected reader. Added the
  *ambient* operations (fixed list of values through the hard-wired default settings against the real, read-only filesystem, compared
  with explicit settings + recording `std::fs::read` + the reference resolver), `TZDIR=@CORPUS/right` as a decoy tree, and the working
  directory as one more piece of global state the environment actor changes; ambient operations are re-executed alone with
  environment and working directory back at their baseline.
* `seeded/C15-r2c15-m2` (memo of a rule's transition instants keyed by the rule's days and times but not its offsets): needs two
  zones with the same rule days/times and different offsets searched in the same year. Added *sibling zones* (a spec shifted by a
  whole number of half-hours), the US/Australian zone families of the corpus and search fields in their rule-governed future.
* `seeded/C08-r2c08-m1` (footer/last-transition consistency evaluated at the leap time instead of the Unix time): exposed that the
  expectation for generated files used the library's own constructor, i.e. moved together with the bug. Added
  `tzsim/src/refmodel.rs`: an independent judgement of well-formedness (own calendar arithmetic, own evaluation of the rule at one
  instant, own leap conversion; answers *no position* for degenerate rules, instants on a leap record and instants outside +-6e16)
  that overrides the constructor where it takes a position, plus generator placement of the last transition within a few seconds of a
  rule change. `./check selftest` compares the model with the constructor on 300 000 generated specs (0 disagreements on the
  unchanged tree).
* `seeded/C08-r2c08-m2`/`m3`, `seeded/C07-r2c07-m3`: new typed corruptions `footer_extra_line`, `footer_junk_char`,
  `footer_big_number` (a numeric field replaced by 596524 ... 2^63-1) and the first-header count violations `h1_*` of v2+ files.

Third round (C15 and C08 agents were told what the machinery evidently does and asked to get around it; C17/C19 second round):

* `seeded/C15-r3c15-m1/m2/m3` (state in `static` atomics, wrong only under a cross-function overlap / after exactly 65 535
  drops / with three threads on one slot): all three missed by every behavioural oracle and by 64 Miri seeds x 4 threads x 60 calls
  at two preemption rates. Caught since by the direct comparison of the executable's static data and TLS block around every
  call (`C15.static_write`, section 11) - at the first call that touches the memo.
* `seeded/C08-r3c08-m1` (designation table cut at 256 octets): the writer never produced a table longer than 256. Large type
  counts now sometimes come with ~40 distinct long names. `m2` (case-insensitive comparison in the footer consistency check):
  added near-miss specs (last transition type differing from the rule's in letter case, offset +-1, DST flag, one character) that
  the independent model classifies as violating. `m3` (`str::trim` strips Unicode white space): typed corruption
  `footer_unicode_space` (NEL, NBSP, LINE SEPARATOR, IDEOGRAPHIC SPACE next to the TZ string).
* `seeded/C19-r2c19-m2` (directory names trimmed only without `std`): `featsim` had no resolution path; added before this
  mutant was measured, so it never counted as a miss - recorded here because without that addition it would have been one.
* `seeded/C17-r2c17-*`, `seeded/C19-r2c19-m1/m3`: caught by the machinery as it was.

* `seeded/C20-r3c20-m1/m2/m3` (candidate paths of 4096 octets or more never opened; `localtime` matched case-insensitively; files
  above 1 MiB treated as unreadable): all three missed - the workload had no very long values, no case variants of `localtime`, no
  large files. Added values of 4095/4096/4097/5000/70000 octets (names, absolute paths, descriptions padded with blanks),
  `Localtime`/`LOCALTIME`/... (also as existing file names), and `fill` contents (64 KiB ... 3 MiB of one byte) that must be read,
  refused as files and end the search. The allocation bound for a resolution now counts the TZ value and the candidate paths as input.
* `seeded/C07-r3c07-m1` (a 256-entry stack cache indexed by local-time-type index in `find`) and `m2` (i32 subtraction of two offsets in
  `project`): missed - zones with more than 256 types cannot come from a TZif file and no projection between two extreme offsets was
  generated. Added the constructor workloads `tzref_many` (257-456 types through `TimeZoneRef::new`, then lookups and searches at the
  transitions) and `project_x` (projection between fixed zones with offsets up to +-(2^31-1)). `m3` (unreachable!() for rules straddling
  the new year) was caught as it was.

Fourth round (C15) and third round (C17, C19):

* `seeded/C15-r4c15-m2/m3/m4` (reading `/etc/timezone` beside the injected reader; an `Arc<AtomicUsize>` hint inside `TimeZone`
  written by `&self` lookups; probing a directory relative to `current_exe()`): caught at once by the system-call seam and the
  zone-memory digest, both of which had been built in anticipation of exactly this class after round 3. `m1` (`find` consults the
  crate's own clock function): missed - the clock hook is the simulator's own seam, so the shim sees nothing; added the rule that an
  operation which is given its instant must not read the clock at all (the hook counts reads per call).
* `seeded/C17-r3c17-m1` (16-bit counters): no query had more than a few results; added *ping-pong* zones (two types, hundreds to
  140 000 transitions one second apart) in which one local time has up to 70 000 results. `m2` (earliest/latest as min/max, differing
  only for ties) and `m3` (`find_n` validating through `UtcDateTime::new`, which refuses `i32::MAX-12-31T23:59:60`): added pairs of
  transitions exactly at a leap record and one second later, and calendar corner dates (Dec 31 23:59:60, Feb 29, ...) in the first
  and last representable years.
* `seeded/C19-r3c19-m1/m3` (error enums implementing `Error` only with std; `From<TransitionRuleError> for Error` only with alloc):
  tz-rs still builds alone everywhere and no value changes - only a *consumer* of the reduced configurations stops compiling. `featsim`
  now contains `api.rs`, the configuration-independent API surface written as code; if tz-rs builds alone, the consumer builds with std,
  and the same consumer does not build with `{}` or `{alloc}`, that is `C19.build consumer-<set>`. `m2` (`Display` honouring width, fill and
  precision only with alloc): formatting now also goes through `{:>44}`, `{:<5}`, `{:*^50}`, `{:.3}` into the stack buffer.

Fifth round (C08, C20, C07; one agent per property):

* `seeded/C20-r4c20-m3` (one parser for rule times, range check on the *value* when extensions are off, so `/+2` and `/-0` are accepted
  in the plain grammar): missed - the printer never wrote a sign in front of a non-negative rule time. Added the printing styles
  *explicitly signed rule time* and *negative zero*; a description or a version-2 footer written that way is classified as needing
  the extensions (`needs_extensions_styled`), by the writer, the independent well-formedness model and the resolution oracle alike.
* `seeded/C08-r4c08-m1/m2/m3` (length of the skipped 32-bit block computed with 4-octet leap records; `isut` read before `isstd`;
  32-bit times widened unsigned), `seeded/C20-r4c20-m1/m2` (malformed file replaced by the description of the same name; unreadable
  absolute path retried under the directories), `seeded/C07-r4c07-m1/m2/m3` (year guard dropped in the rule evaluation; unchecked slice
  after `<`; plain subtraction in the leap-record check): caught by the machinery as it was.

* `seeded/C15-r5c15-m1/m2/m3` (last successful directory index remembered in a `static AtomicUsize`; "is version 3" passed from header
  to footer parsing through a `static AtomicBool`, wrong only while two decodes overlap; a `thread_local!` conversion memo keyed by
  second and type index but not by zone), `seeded/C17-r5c17-m1/m2/m3` (`latest()` scanning the whole buffer; the scan stopping once
  the buffer has overflowed; a fixed-zone fast path reporting one result for a zero-length buffer), `seeded/C19-r5c19-m1/m2/m3` (a
  linear scan with `<` for `<=` only without `alloc`; a 64-bit fast path without `std`; `find_n` built on `find` with `alloc`): nine
  out of nine caught by the machinery as it was.

Sixth round (C20, C17, C19, C07; each agent was told what the machinery evidently does and asked to get past it): 12 changes, 5 missed at first.

* `seeded/C20-r6c20-m1` (every leading colon stripped, so `::Zone` opens `<dir>/Zone`): no value had more than one colon. Added `::name`,
  `::/abs`, `::`, `:::`, `::localtime`, colon + blank. `m2` (the directory scan stops at an `io::Error` of kind `InvalidInput`): the read
  seam only produced five errno values. It now produces eleven errno values, four code-less `io::ErrorKind`s (what std itself returns,
  e.g. for a NUL in a path) and an error that is not an `io::Error` at all; file permissions and `chmod` use them too. `m3` (numbers
  folded with wrapping arithmetic) was caught by the footer corruption `footer_big_number`.
* `seeded/C19-r6c19-m2` (`parse_local` honours `$TZ`, only with std): `featsim` neither called `parse_local` nor ran with a `TZ` in its
  environment. Each scenario now sets `TZ`/`TZDIR` from its seed (unset / `JST-9` / `:Zone/A` + `/zi`), identically in the three builds,
  and one resolution in four is `parse_local`. `m3` (`Error::source()` overridden only with alloc): the canonical form of an error
  was its `Debug` text. It is now `Debug`, `Display` and the `source()` chain, of the value itself and of the crate-wide `tz::Error` it
  converts into. `m1` (`Path::join` with std, `format!` without) was caught as it was.
* `seeded/C07-r6c07-m1` (`Display` of a `DateTime` indexing a 00-99 table with the offset hours): the panic happened while the *harness*
  rendered a result, outside the measured call, and was reported as a harness error (exit 2). A panic whose location lies in the library's
  source while a result is read through public getters or `Display` is now `C07.panic` (`run_op_guarded`). `m2` (error message indexing
  `directories[0]`), `m3` (`latest()` indexing with the total count) and all of `seeded/C17-r6c17-m1/m2/m3` were caught as they were.

Seventh round (C15 and C08 once more, agents told about every oracle built so far): 6 changes, 4 missed at first.

* `seeded/C15-r7c15-m1` (designations validated by iterating a std `HashMap`: for a file with two designations that are bad for
  different reasons the error reported depends on the randomised hash seed): the difference between the concurrent and the alone
  execution was seen, but a violation that is itself random does not reproduce in a single fresh execution, so it ended as a harness
  error. Added *repeat* replay files (`repeat 32`: the scenario is executed up to 32 times in the fresh process until the oracle fires;
  executions that differ from one another are `C15.result_nondeterminism`), the *twin call* (every decode is done twice in a row on the
  same thread and must render identically) and the corruption `desig_two_bad` (plus `desig_bad_char`, `desig_short`).
* `seeded/C15-r7c15-m2` (extra directories from `ZONEINFO`, `ANDROID_ROOT`, `ANDROID_DATA`, read through `std::env::vars_os()`, i.e. the
  `environ` block without any libc call): invisible to the system-call seam, and the environment actor only changed `TZ`, `TZDIR`, `LANG`,
  `LC_ALL`. It now also sets and clears a list of 50 plausible variable names at once (`DECOYS`); whoever consults one opens other paths than
  the alone execution (at baseline environment) and the reference resolver expect.
* `seeded/C15-r7c15-m3` (the default reader turns an empty file into `io::Error::last_os_error()`, the thread's stale `errno`): the real
  filesystem of the sandbox had no empty file among the ambient values. `/verif/ambient/` now holds an empty file, a non-TZif file, a
  truncated zone and a directory; default settings and explicit settings over `std::fs::read` must agree on them, text of the I/O error
  included (the canonical form of an I/O error now contains its text).
* `seeded/C08-r7c08-m1` (`<=` for `<` in an inlined leap conversion: a file whose last transition lies exactly on a leap record and on
  the rule's change instant is refused): the independent model took no position at an instant that is itself a leap record. It now
  does - a record applies strictly after its own count, which is what "an inserted leap second shares the UTC value of the second that
  follows it" (C12) pins down - and the generator sometimes puts a leap record exactly on (or one second around) the last transition.
  `m2` (indicator pairs walked along the isstd vector only) and `m3` (explicit `+` on a rule time in a version-2 footer) were caught as
  they were, `m3` thanks to the round-5 addition.

Eighth round (all six properties, agents told about everything built so far and what had been tried before): 18 changes, 9 missed at first
(two of them by making the *check itself* fail: a hang and an unconfirmable crash).

* `seeded/C15-r8c15-m1` (the default reader stats the file and then reads at most that many octets: overtaken by an atomic replacement
  between the two requests): nothing could run between two system calls of one library call. The system-call shim now calls back into
  the simulator before every file-system request; while a call through the default reader is in progress (`liveread`) that is a
  scheduling point, and an installer actor replaces *real* files under `/verif/target/live/<pid>/` atomically (`liveinstall`: write to a
  temporary name, rename). The answer must be the decoding of a version that was current during the call.
  `m2` (the default reader takes an exclusive `flock`) and `m3` (a diagnostic line written to `stderr` on the description path, which made
  the *check* hang on a full pipe): the shim now also counts use of the standard streams and of file locks during library calls;
  workers write to log files instead of pipes, and a worker that makes neither progress nor uses CPU time for four minutes is killed and
  reported (`C07.hang`).
* `seeded/C20-r8c20-m2` (no separator after the directory `/`): directory pool extended with `/`, the empty string, `/d4/`, `.`, `//d5`,
  `zi/`, `/d3/.`, each with a decoy file at the tidied spelling. `m1` (names with `..` refused) and `m3` (description cut at the first
  inner blank) were caught as they were.
* `seeded/C07-r8c07-m2` (version `4` accepted, panic for exactly one leap record): the byte sweep used four values per octet; the two
  version octets now take all 256 values, separately and together. `m3` (one stack frame per leading colon; aborts only in an unoptimised
  build): TZ strings of one token repeated up to 100 000 times; the quick tier now also runs a slice under the plain and the unoptimised
  build; replay files name the build profile that found them and are confirmed with that build (the crash had been found but could not
  be confirmed by the optimised worker). Found on the way: the per-profile sweeps overwrote the statistics (and findings) of the main
  sweep of the same kind; their output files now carry the profile name.
* `seeded/C19-r8c19-m1` (errors of the caller's reader downcast to `io::Error` with std): `featsim`'s reader only ever failed with
  `ENOENT`; it now fails in the sixteen ways of the simulator's read seam. `m2` (a `thread_local` cache keyed by the address of a rule):
  seen as differing digests but not reproducible from the scenario alone; C19 replay files can now carry the scenarios the worker had
  executed before (`# first`), replayed in the same process. `m3` (`partial_cmp` breaking ties with alloc): results are now also related
  to each other with `==`, `partial_cmp`, `<`, `>=` (neighbours in result lists, the two halves of a skipped pair, an instant written as
  second 60 and as second 0 of the next minute).
* `seeded/C17-r8c17-*`, `seeded/C08-r8c08-*`, `seeded/C07-r8c07-m1`: caught as they were.

Ninth round (C20, C08, C17; informed): 9 changes, 4 missed at first.

* `seeded/C20-r9c20-m2` (an `/etc/localtime` that is a text file holding a valid TZ description is decoded as that description): file
  contents now include such text files, and bytes that do not begin with the magic number are expected to be refused wherever they are read.
  `m1` (value cut at the first NUL) and `m3` (trailing `/` trimmed from the name) were caught as they were.
* `seeded/C08-r9c08-m1` (a first transition at -2^59, zic's old "Big Bang" placeholder, silently dropped): first transitions now sometimes
  take placeholder values (-2^59 and its neighbours, `i64::MIN`, -2^62, the 32-bit minimum). `m2` (the rule constructor's consistency check
  converting the end time with the wrong offset, so that an ordinary footer with neighbouring rule days is refused): both the generator
  (which filtered such rules out, through the library's own constructor) and the well-formedness model had left the verdict on a rule to
  the library. The model now declares a rule consistent when its two changes alternate cleanly, at least two seconds apart, through a
  400-year cycle (otherwise it still takes no position), the generator accepts such rules and produces neighbouring-day pairs; selftest:
  0 disagreements with the constructor on 300 000 specs. `m3` (a seconds field of 60 accepted in rule times): typed corruption
  `footer_minsec_60` (minutes or seconds of 60/61/99 in the offset or in a rule time).
* `seeded/C17-r9c17-m1/m2/m3` (strict `>` reduction in `latest()`, `find` de-duplicating equal neighbours, sorted insertion in `find_n`):
  caught as they were.

Tenth round (third session; all six claimed properties, two changes each, agents given only the property text): 12 changes, none missed.
`seeded/C07-r10c07-m1/m2` (designation index bound check dropped; plain `-`/`.abs()` on leap corrections) fired `C07.panic` from the
bit-flip faults; `C08-r10c08-m1` (std/ut pair rule enforced by a plain `zip`, so `isstdcnt=0` with a UT indicator passes) fired `C08.typed`,
`m2` (arithmetic skip of the 32-bit block assuming `isstdcnt == isutcnt`) fired `C08.fidelity` on the re-encoded corpus; `C15-r10c15-m1`
(thread-local memo of the last search keyed by the transition table's address and length, so two rule-only zones collide) fired
`C15.alone_vs_concurrent`, `m2` (`$TZDIR` fallback) `C15.ambient_read`; `C17-r10c17-m1` (count saturating at n+1) and `m2` (`latest()` reading
stale slots of a reused buffer) fired the C17 buffer oracles; `C19-r10c19-m1` (no-alloc forward scan returning `Err` on an exact hit) and `m2`
(`Path::join` under std, `format!` otherwise) fired the cross-build comparison; `C20-r10c20-m1` (empty files skipped in the directory scan)
and `m2` (`:localtime` treated as `localtime`) fired `C20.open_history`.
Eleventh round (third session; agents given the property text plus a list of the *kinds* of change earlier rounds had already tried, and
asked for the least obvious places - silent wrong values, error values, call sequences, single feature sets): 18 changes, 4 missed at first.

* `seeded/C07-r11c07-m1` (i128 -> i64 narrowing in `total_nanoseconds_to_timespec` that only watches the sign, so `(2^64 + 5)` seconds is
  accepted as 1970-01-01T00:00:05) and `m2` (the fixed-rule branch of the search range-checks the local seconds instead of the instant, so a
  date at the year limits comes back `Ok` with a Unix time outside the supported range): neither panics nor overflows - the property's last
  clause (*invalid or unsupported input yields an error value*) had no oracle of its own. Added `C07.error_value`: an accepted total must be
  the total of the value handed back (`from_total_nanoseconds*`, with a second generated total whose seconds exceed 64 bits while their
  low 64 bits look like a supported time), and every date-time a search hands back must carry a timestamp `from_timespec` accepts.
  `m3` (minute/second of a v3 footer rule time multiplied before being validated) was caught as it was (`C07.panic`).
* `seeded/C15-r11c15-m2` (TZ values beginning with `./` or `../` treated as explicit paths, i.e. relative to the working directory - process-global
  state another thread can change): the ambient value list had bare relative names (`corpus/Asia/Tokyo`) but none with a dot prefix, which this
  change special-cases. Added `./` and `../` values that exist relative to each working directory the environment actor moves between.
* `seeded/C15-r11c15-m3` (`Error::Io` and `ReadFileFn` through an alias that drops `Send + Sync` in the alloc-only build): the auto-trait gate was
  built with tz-rs's default features only. It is now built once per feature set (`autotraits`, `autotraits-alloc`, `autotraits-core`; the types
  that exist only with `alloc` are gated in the gate crate the same way).
* Caught as they were: `C15-r11c15-m1` (an `RwLock<usize>` directory hint inside `TimeZoneSettings`: `C15.alone_vs_concurrent` through the open history
  and the Freeze gate); `C08-r11c08-m1/m2/m3` (indicator pairs checked only when both vectors are present; `str::trim()` on the footer; 32-bit times
  decoded unsigned in v1 files); `C17-r11c17-m1/m2/m3` (store skipped when the slot already compares equal - equality looks at the instant only;
  a skipped entry not built when the buffer is full; up-front validation in `find_n` refusing 23:59:60 of the last supported year);
  `C19-r11c19-m1/m2/m3` (sign of a sub-minute negative offset under alloc; results committed only on success under alloc; a `not(std)` fast path
  in a Euclidean division); `C20-r11c20-m1/m2/m3` (`trim()` in the fallback, trailing `/` stripped from directories, one retry on `Interrupted`).

Two-site breakages (`seeded/C07-duo2-m1`, `C08-duo2-m2`, `C17-duo2-m3`): each consists of two edits in different functions that are
harmless alone (a relaxed range check in `TimeZoneRef::new` + a hoisted index in `find`; explicit enum discriminants + a numeric version
comparison; an up-front validation in `find_n` + a reordered range check in the shared search). All three combinations were caught by the
machinery as it was; each single half was run as well and stayed silent - except the half that on its own already accepts a file whose
last transition type index is out of range, which C08 reports (correctly: that half alone violates C08, as its author noted).

False alarms: an independent agent wrote eight behaviour-preserving changes (`/verif/benign/b1..b8`: rewritten binary searches, restructured
TZif block parsing with checked sizes, a different `TzAsciiStr` representation, Hinnant's civil-from-days in `from_timespec`, `find_date_time`
split into helpers, a local `Vec<String>` of candidate paths in `read_tz_file`, reworded error messages plus extra derives and `#[inline]`s,
a merged `AlternateTime::find_local_time_type`), each verified by that agent with a differential harness against HEAD. All six checks stayed
silent on all eight (`tools/benign.py`, 48 runs, `benign/*/result.json`), also after the later oracles (static/TLS comparison, system-call seam,
zone-memory digest) were added. A second batch (`benign/b21..b28`) was written to come close to those tripwires without crossing them: call-local
`HashSet`s in the std build (which bump std's per-thread hash seed - calibrated out of the TLS comparison, see section 11), read-only `static` tables,
different allocation patterns in the decoder (peak below the bound), additive public API including a new public type, reordered error variants with
hand-written `Debug`, byte-level trimming, a two-entry local cache in the search, code moved into a new module with `#[cold]` helpers and `i128`
intermediates. All six checks stayed silent on all eight again.

Third session: after the round-11 additions (`C07.error_value`, dot-prefixed ambient values, the gate per feature set) the behaviour-preserving
changes closest to them were re-run on the new machinery (`benign/*/result.json`): `b4` (a different civil-from-days algorithm in `from_timespec`), `b5` (`find_date_time` split into helpers), `b27` (additive public API including a new
public type), `b28` (code moved into a new module, `i128` intermediates), `b36` (restructured designation parsing) and `b6` (local `Vec<String>` of candidate paths), each under
all six checks - 36 runs, all silent; the remaining re-runs were cut by the session's time limit, the second session's 144 silent runs stand for the rest.
Three stored breakages that depend on the ambient value list (`C15-r2c15-m3`, `C20-r2c20-m3`, `C15-r10c15-m2`) were re-run against the lengthened list and are still reported.

Residual risk, stated plainly: a data race on state reached only through pointers (so that no static or TLS byte changes) that needs a
preemption between two specific instructions is found by the Miri tier only with luck; tier A never preempts inside a call.
""")
s = open(os.path.join(V, "DESIGN.md")).read()
i = s.find("## 12. Which checks catch which breakages")
if i >= 0:
    s = s[:i]
s = s.rstrip("\n") + "\n\n" + "\n".join(out) + "\n"
open(os.path.join(V, "DESIGN.md"), "w").write(s)
print(f"{caught}/{len(rows)}")
