#!/usr/bin/env python3
"""Re-run the matching check against every stored breakage (seeded/*/patch.diff) and every
hand-written one (tools/sens.py), in the scratch copies made by tools/scratch.sh, and update
seeded/*/meta.json and sensitivity/results.json. /repo itself is never touched."""
import glob
import json
import os
import subprocess
import sys
import time

V = os.path.dirname(os.path.dirname(os.path.abspath(__file__)))
SFX = os.environ.get("SCRATCH_SUFFIX", "")
SV, SR = "/tmp/vscratch" + SFX, "/tmp/rscratch" + SFX
SCALE = os.environ.get("SENS_SCALE", "0.25")


def sh(argv, cwd=None, env=None, timeout=3600):
    e = dict(os.environ)
    e["CARGO_NET_OFFLINE"] = "true"
    e["TZSIM_REPO"] = SR
    if env:
        e.update(env)
    p = subprocess.run(argv, cwd=cwd, env=e, stdout=subprocess.PIPE, stderr=subprocess.STDOUT, text=True, timeout=timeout)
    return p.returncode, p.stdout


def run_check(prop):
    t0 = time.time()
    rc, o = sh([os.path.join(SV, "check"), prop, "quick"], cwd=SV, env={"TZSIM_BUDGET_SCALE": SCALE})
    return {"cmd": f"TZSIM_BUDGET_SCALE={SCALE} ./check {prop} quick", "exit": rc, "detected": rc == 1 and "VIOLATION property=" in o,
            "oracles": [l[:400] for l in o.splitlines() if l.startswith("violated oracle")][:4], "harness_errors": [l[:300] for l in o.splitlines() if l.startswith("HARNESS-ERROR")][:3], "wall_s": round(time.time() - t0, 1)}


def main():
    subprocess.run([os.path.join(V, "tools", "scratch.sh")], check=True, stdout=subprocess.DEVNULL)
    only = sys.argv[1:]
    for m in sorted(glob.glob(os.path.join(V, "seeded", "*", "meta.json"))):
        name = os.path.basename(os.path.dirname(m))
        if only and not any(o in name for o in only):
            continue
        d = json.load(open(m))
        (sh(["git", "-C", SR, "checkout", "--", "."]), sh(["git", "-C", SR, "clean", "-fdq", "src", "tests"]))
        rc, o = sh(["git", "-C", SR, "apply", os.path.join(os.path.dirname(m), "patch.diff")])
        if rc != 0:
            print(name, "patch does not apply", o[-200:])
            continue
        d["check"] = run_check(d["property"])
        json.dump(d, open(m, "w"), indent=1)
        print(name, d["check"]["detected"], (d["check"]["oracles"] or [""])[0][:160], flush=True)
    (sh(["git", "-C", SR, "checkout", "--", "."]), sh(["git", "-C", SR, "clean", "-fdq", "src", "tests"]))
    if only and "sens" not in only and not any(o.startswith("c") and "_" in o for o in only):
        return
    sys.path.insert(0, os.path.join(V, "tools"))
    import sens
    respath = os.path.join(V, "sensitivity", "results.json")
    results = json.load(open(respath)) if os.path.exists(respath) else {}
    for mu in sens.M:
        if only and "sens" not in only and mu["name"] not in only:
            continue
        for (f, old, new) in mu["edits"]:
            path = os.path.join(SR, f)
            s = open(path).read()
            if s.count(old) != 1:
                print(mu["name"], "pattern count", s.count(old))
                break
            open(path, "w").write(s.replace(old, new))
        else:
            prev = results.get(mu["name"], {})
            c = run_check(mu["prop"])
            results[mu["name"]] = {"property": mu["prop"], "what": mu["note"], "existing_tests_pass": prev.get("existing_tests_pass"), "check_exit": c["exit"], "detected": c["detected"], "first_oracle": (c["oracles"] or [""])[0][:300], "harness_errors": c["harness_errors"], "wall_s": c["wall_s"]}
            print(mu["name"], c["detected"], (c["oracles"] or [""])[0][:160], flush=True)
            json.dump(results, open(respath, "w"), indent=1, sort_keys=True)
        (sh(["git", "-C", SR, "checkout", "--", "."]), sh(["git", "-C", SR, "clean", "-fdq", "src", "tests"]))


if __name__ == "__main__":
    main()
