//! C15 tier C: compile gate. Every public type of tz-rs can be sent and shared across
//! threads (and moved, and observed across an unwind). If tz-rs itself builds but this
//! crate does not, some public type lost an auto trait - e.g. a `Cell`/`RefCell`/`Rc`
//! crept into it.

use std::panic::{RefUnwindSafe, UnwindSafe};
#[cfg(feature = "alloc")]
use tz::datetime::FoundDateTimeList;
use tz::datetime::{DateTime, FoundDateTimeKind, FoundDateTimeListRefMut, UtcDateTime};
use tz::error::datetime::DateTimeError;
#[cfg(feature = "alloc")]
use tz::error::parse::{ParseDataError, TzFileError, TzStringError};
use tz::error::timezone::{LocalTimeTypeError, TimeZoneError, TransitionRuleError};
use tz::timezone::{AlternateTime, Julian0WithLeap, Julian1WithoutLeap, LeapSecond, LocalTimeType, MonthWeekDay, RuleDay, TimeZoneRef, Transition, TransitionRule};
#[cfg(feature = "alloc")]
use tz::timezone::{TimeZone, TimeZoneSettings};
use tz::{Error, TzError};

fn shared<T: Send + Sync + Unpin + UnwindSafe + RefUnwindSafe>() {}
fn shared_static<T: Send + Sync + Unpin + UnwindSafe + RefUnwindSafe + 'static>() {}
fn send_sync<T: Send + Sync + Unpin>() {}

pub fn gate() {
    #[cfg(feature = "alloc")]
    shared_static::<TimeZone>();
    shared_static::<TimeZoneRef<'static>>();
    shared::<TimeZoneRef<'_>>();
    #[cfg(feature = "alloc")]
    shared_static::<TimeZoneSettings<'static>>();
    #[cfg(feature = "alloc")]
    shared::<TimeZoneSettings<'_>>();
    shared_static::<LocalTimeType>();
    shared_static::<Transition>();
    shared_static::<LeapSecond>();
    shared_static::<TransitionRule>();
    shared_static::<AlternateTime>();
    shared_static::<RuleDay>();
    shared_static::<MonthWeekDay>();
    shared_static::<Julian0WithLeap>();
    shared_static::<Julian1WithoutLeap>();
    shared_static::<DateTime>();
    shared_static::<UtcDateTime>();
    shared_static::<FoundDateTimeKind>();
    #[cfg(feature = "alloc")]
    shared_static::<FoundDateTimeList>();
    // holds `&mut [..]`: Send + Sync, but (like every &mut) not UnwindSafe
    send_sync::<FoundDateTimeListRefMut<'_>>();
    shared_static::<TzError>();
    // Error::Io holds a Box<dyn Error + Send + Sync>: Send + Sync, unwind safety is not promised by the box
    send_sync::<Error>();
    shared_static::<DateTimeError>();
    #[cfg(feature = "alloc")]
    shared_static::<ParseDataError>();
    #[cfg(feature = "alloc")]
    shared_static::<TzFileError>();
    #[cfg(feature = "alloc")]
    shared_static::<TzStringError>();
    shared_static::<LocalTimeTypeError>();
    shared_static::<TimeZoneError>();
    shared_static::<TransitionRuleError>();
}
